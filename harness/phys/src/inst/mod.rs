//! Generated instance lists (see /verif/lib/vlib.py).
#![allow(non_snake_case)]
include!("all.rs");
