//! Native replay of a solver counterexample.
//!
//! usage: replay <instance> <values-file>
//! The values file holds one line per `kani::any()` of a primitive, in call
//! order, each a comma separated list of byte values (little endian).
//! Prints exactly one line `REPLAY-RESULT: ok` or
//! `REPLAY-RESULT: panic <location> :: <message>`.

#[cfg(kani)]
fn main() {}

#[cfg(not(kani))]
use std::{panic, sync::Mutex};

#[cfg(not(kani))]
static LAST: Mutex<Option<String>> = Mutex::new(None);

#[cfg(not(kani))]
fn main() {
    let args: Vec<String> = std::env::args().collect();
    if args.len() != 3 {
        eprintln!("usage: replay <instance> <values-file>");
        std::process::exit(3);
    }
    let Some(f) = vphys::inst::dispatch(&args[1]) else {
        eprintln!("unknown instance {}", args[1]);
        std::process::exit(3);
    };
    let text = std::fs::read_to_string(&args[2]).expect("values file");
    let mut values = Vec::new();
    for line in text.lines() {
        let line = line.trim();
        if line.is_empty() || line.starts_with('#') {
            continue;
        }
        values.push(
            line.split(',')
                .map(|x| x.trim().parse::<u8>().expect("byte"))
                .collect::<Vec<u8>>(),
        );
    }
    vphys::sym::load(values);
    panic::set_hook(Box::new(|info| {
        let loc = info
            .location()
            .map(|l| format!("{}:{}", l.file(), l.line()))
            .unwrap_or_default();
        let msg = if let Some(s) = info.payload().downcast_ref::<&str>() {
            s.to_string()
        } else if let Some(s) = info.payload().downcast_ref::<String>() {
            s.clone()
        } else {
            "<non-string panic>".to_string()
        };
        *LAST.lock().unwrap() = Some(format!("{} :: {}", loc, msg.replace('\n', " ")));
    }));
    let r = panic::catch_unwind(f);
    match r {
        Ok(()) => println!("REPLAY-RESULT: ok (unused values: {})", vphys::sym::remaining()),
        Err(_) => println!(
            "REPLAY-RESULT: panic {}",
            LAST.lock().unwrap().clone().unwrap_or_default()
        ),
    }
}
