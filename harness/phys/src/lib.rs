//! Kani harnesses over `alpha_g_physics` (compiled from /repo's working tree).
#[macro_use]
pub mod sym;

pub mod c08p;
pub mod c18;
pub mod c19;
pub mod c20;
pub mod extracted_csv;
pub mod extracted_cbts;
#[rustfmt::skip]
pub mod drift_data;

#[macro_export]
macro_rules! inst {
    ($name:ident, $unwind:expr, $f:expr) => {
        #[cfg(kani)]
        #[kani::proof]
        #[kani::unwind($unwind)]
        pub fn $name() {
            $f()
        }
        #[cfg(not(kani))]
        pub fn $name() {
            $f()
        }
    };
}

/// One harness instance that verifies with `$orig` replaced by `$stub` (Kani only).
#[macro_export]
macro_rules! inst_stub {
    ($name:ident, $unwind:expr, $f:expr, $orig:path, $stub:path) => {
        #[cfg(kani)]
        #[kani::proof]
        #[kani::unwind($unwind)]
        #[kani::stub($orig, $stub)]
        pub fn $name() {
            $f()
        }
        #[cfg(not(kani))]
        pub fn $name() {
            $f()
        }
    };
}

pub mod inst;
