//! C18 - drift-time lookup is bounded, monotone, continuous and symmetric.
//!
//! The shipped tables are turned into literals (`drift_data.rs`, regenerated
//! from /repo at every run); the crate-private `DriftTables` is built from them
//! through the hook and the REAL `DriftTables::at` / `DriftTable::at` run.
//! One instance = one real table `K`; `t` is symbolic in [-1e-6, 5e-6] s.

use crate::drift_data::{qtable, table, NUM_TABLES, Z_BOUNDS};
use uom::si::f64::{Angle, Length, Time};
use uom::si::length::meter;
use crate::sym;
use alpha_g_physics::verif_drift::VerifDriftTables;

const T_LO: f64 = -1e-6;
const T_HI: f64 = 5e-6;

fn sym_t() -> f64 {
    let t = sym::f64();
    sym::assume(t >= T_LO && t <= T_HI);
    t
}

/// One-slice tables holding real table `K` (mode `M` = 0) or a window of its
/// consecutive knots (`M` = 1 first 8, 2 last 8, 3 the 48 around the middle),
/// with its real z bound. A window of consecutive knots of a table is itself a
/// table; inside the window the real lookup brackets `t` with the same two
/// knots as in the full table. Windows are separate statics so that the lookup
/// at a symbolic index ranges over a small object.
fn one<const K: usize, const M: usize>() -> (VerifDriftTables, &'static [(f64, f64, f64)], f64) {
    let z = Z_BOUNDS[K];
    (
        VerifDriftTables::from_static(&[(qtable(K, M), Length::new::<meter>(z))]),
        table(K, M),
        z,
    )
}

/// (a) success iff t within [first, last] knot (inclusive) else drift-time error;
/// (b) radius within the slice's tabulated extremes, correction within [0, max].
pub fn range_and_bounds<const K: usize, const M: usize>() {
    let (tabs, k, zb) = one::<K, M>();
    let n = k.len();
    let t = sym_t();
    let z = sym::f64();
    sym::assume(z >= -zb && z <= zb);
    let r = tabs.at(z, t);
    let inside = t >= k[0].0 && t <= k[n - 1].0;
    witness!(r.is_ok(), "inside");
    witness!(r.is_err() && t > k[n - 1].0, "beyond-last-knot");
    witness!(r.is_err() && t < k[0].0, "before-first-knot");
    check!(r.is_ok() == inside, "C18:range:iff");
    match r {
        Ok((rad, cor)) => {
            // tables: radius descending, correction ascending (checked natively in setup)
            check!(rad >= k[n - 1].1 && rad <= k[0].1, "C18:radius-within-tabulated-extremes");
            check!(cor >= 0.0 && cor <= k[n - 1].2, "C18:correction-within-0-and-max");
        }
        Err(kind) => check!(kind, "C18:range:error-kind-is-drift-time"),
    }
    std::mem::forget(tabs);
}

/// (e) every tabulated time reproduces its tabulated radius/correction (1e-12).
pub fn knots<const K: usize, const M: usize>() {
    let (tabs, k, _zb) = one::<K, M>();
    let n = k.len();
    let i = sym::usize();
    sym::assume(i < n);
    let r = tabs.at(0.0, k[i].0);
    witness!(i == 0, "first-knot");
    witness!(i == n - 1, "last-knot");
    check!(r.is_ok(), "C18:knot:accepted");
    if let Ok((rad, cor)) = r {
        let dr = rad - k[i].1;
        let dc = cor - k[i].2;
        check!(dr <= 1e-12 && dr >= -1e-12, "C18:knot:radius");
        check!(dc <= 1e-12 && dc >= -1e-12, "C18:knot:correction");
    }
    std::mem::forget(tabs);
}

/// (f) z and -z give bit-identical results.
pub fn symmetry<const K: usize, const M: usize>() {
    let (tabs, _k, zb) = one::<K, M>();
    let t = sym_t();
    let z = sym::f64();
    sym::assume(z >= 0.0 && z <= zb);
    let a = tabs.at(z, t);
    let b = tabs.at(-z, t);
    witness!(a.is_ok(), "inside");
    let same = match (a, b) {
        (Ok((r1, c1)), Ok((r2, c2))) => r1.to_bits() == r2.to_bits() && c1.to_bits() == c2.to_bits(),
        (Err(x), Err(y)) => x == y,
        _ => false,
    };
    check!(same, "C18:z-symmetry");
    std::mem::forget(tabs);
}

/// (c)+(d) two lookups: radius does not increase with time; lookups 8 ns
/// apart differ by less than 0.5 mm.
pub fn monotone_continuous<const K: usize, const M: usize>() {
    let (tabs, _k, _zb) = one::<K, M>();
    let t1 = sym_t();
    let t2 = sym_t();
    sym::assume(t1 <= t2);
    let a = tabs.at(0.0, t1);
    let b = tabs.at(0.0, t2);
    witness!(a.is_ok() && b.is_ok() && t1 < t2, "two-inside");
    if let (Ok((r1, _)), Ok((r2, _))) = (a, b) {
        check!(r2 <= r1, "C18:radius-non-increasing");
        if t2 - t1 <= 8e-9 {
            check!(r1 - r2 < 0.5e-3, "C18:continuity-8ns");
        }
    }
    std::mem::forget(tabs);
}

/// Slice selection over the real z bounds `8*J .. 8*J+8` (two-knot dummy
/// tables whose radius encodes the slice index): error iff |z| > last bound,
/// else the first slice whose bound is >= |z|, including z exactly on a bound;
/// identical for z and -z.
pub fn slice_selection<const J: usize>() {
    use core::marker::PhantomData;
    const fn q(t: f64, r: f64) -> (Time, Length, Angle) {
        (
            Time { dimension: PhantomData, units: PhantomData, value: t },
            Length { dimension: PhantomData, units: PhantomData, value: r },
            Angle { dimension: PhantomData, units: PhantomData, value: 0.0 },
        )
    }
    static DUMMY: [[(Time, Length, Angle); 2]; 8] = {
        let mut a = [[q(0.0, 0.0); 2]; 8];
        let mut k = 0;
        while k < 8 {
            a[k] = [q(0.0, k as f64), q(1.0, k as f64)];
            k += 1;
        }
        a
    };
    let lo = 8 * J;
    let n = if lo + 8 <= NUM_TABLES { 8 } else { NUM_TABLES - lo };
    let mut spec: [(&'static [(Time, Length, Angle)], Length); 8] =
        [(&DUMMY[0], Length::new::<meter>(0.0)); 8];
    let mut k = 0;
    while k < n {
        spec[k] = (&DUMMY[k], Length::new::<meter>(Z_BOUNDS[lo + k]));
        k += 1;
    }
    let tabs = VerifDriftTables::from_static(&spec[..n]);
    let z = sym::f64();
    sym::assume(z >= -1.3 && z <= 1.3);
    let r = tabs.at(z, 0.5);
    let m = tabs.at(-z, 0.5);
    let same = match (r, m) {
        (Ok((r1, c1)), Ok((r2, c2))) => r1.to_bits() == r2.to_bits() && c1.to_bits() == c2.to_bits(),
        (Err(x), Err(y)) => x == y,
        _ => false,
    };
    check!(same, "C18:z-symmetry-of-slice-selection");
    let az = if z < 0.0 { -z } else { z };
    let last = Z_BOUNDS[lo + n - 1];
    witness!(r.is_err(), "outside");
    witness!(r.is_ok(), "inside");
    check!(r.is_ok() == (az <= last), "C18:z-range:iff");
    match r {
        Ok((rad, _)) => {
            let mut want = 0usize;
            let mut found = false;
            let mut k = 0;
            while k < n {
                if !found && Z_BOUNDS[lo + k] >= az {
                    want = k;
                    found = true;
                }
                k += 1;
            }
            check!(found && rad == want as f64, "C18:slice-selected");
        }
        Err(kind) => check!(!kind, "C18:z-range:error-kind-is-axial"),
    }
    std::mem::forget(tabs);
}
