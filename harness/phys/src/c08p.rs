//! C08 (physics part) - wire <-> pad-column association matches geometry.

use crate::sym;
use alpha_g_detector::alpha16::aw_map::TpcWirePosition;
use alpha_g_detector::padwing::map::{TpcPadColumn, PAD_PITCH_PHI};
use alpha_g_physics::verif_matching::{pad_column_to_wires, wire_to_pad_column};

pub fn c08_warm() {}

pub fn wire_pad_column() {
    let w = sym::usize();
    sym::assume(w < 256);
    let c = wire_to_pad_column(w);
    witness!(c == 31, "last-column");
    check!(c < 32, "C08:wire->column:range");
    let r = pad_column_to_wires(c);
    check!(r.end == r.start + 8 && r.end <= 256, "C08:column->wires:eight-inside");
    check!(r.start <= w && w < r.end, "C08:column->wires:contains-wire");
    // rotation by k pad columns = 8k wires (the integer core of C13)
    let k = sym::usize();
    sym::assume(k < 32);
    check!(
        wire_to_pad_column((w + 8 * k) % 256) == (c + k) % 32,
        "C08:rotation-law"
    );
    // geometry: the wire lies within half a pad pitch of its column centre
    let wp = TpcWirePosition::try_from(w).unwrap().phi();
    let cp = TpcPadColumn::try_from(c).unwrap().phi();
    let d = wp - cp;
    check!(
        d <= PAD_PITCH_PHI / 2.0 && d >= -PAD_PITCH_PHI / 2.0,
        "C08:geometry:within-half-pitch"
    );
    // every column is hit and pad_column_to_wires inverts on its range
    let c2 = sym::usize();
    sym::assume(c2 < 32);
    let r2 = pad_column_to_wires(c2);
    let j = sym::usize();
    sym::assume(j < 8);
    check!(r2.start + j < 256 && wire_to_pad_column(r2.start + j) == c2, "C08:column->wires:inverse");
}
