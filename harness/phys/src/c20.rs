//! C20 - Chronobox timestamps CSV never reports a wrong time.
//!
//! Decided on the units of `alpha-g-chronobox-timestamps` that can be called:
//! the private `fn chronobox_time` and the row loop of `main()`, both cut
//! verbatim out of the current source (see lib/gen_extract.py).

use crate::extracted_cbts::{chronobox_time, rows};
use crate::sym;
use alpha_g_detector::chronobox::{FifoEntry, TimestampCounter, WrapAroundMarker};
use uom::si::time::second;

const HALF: u64 = 1 << 23;
const WRAP: u64 = 1 << 24;
const FREQ: f64 = 10e6;

/// Hardware model: marker `c` (counter c, top bit = c odd) is written when the
/// 24-bit counter crosses its (c+1)-th half wrap, i.e. at tick (c+1)*2^23.
fn marker(c: u32) -> WrapAroundMarker {
    WrapAroundMarker::verif_new(c % 2 == 1, c)
}

fn edge(channel: u8, t: u64) -> TimestampCounter {
    // the FIFO word carries T mod 2^24; bit 0 is the edge flag
    TimestampCounter::verif_new(channel, (t % WRAP) as u32, t & 1 == 1).unwrap()
}

/// Model: an edge at true tick `T` within the first 8 wraps, enclosed by the
/// two markers the hardware wrote around it, gets exactly its true time.
pub fn model() {
    let t = sym::u64();
    sym::assume(t >= HALF && t < 16 * HALF);
    let ch = sym::u8();
    sym::assume(ch < 59);
    let c = (t / HALF - 1) as u32;
    let r = chronobox_time(edge(ch, t), Some(marker(c)), Some(marker(c + 1)));
    witness!(c == 14, "last-half-wrap");
    check!(r.is_some(), "C20:model:enclosed-edge-gets-a-time");
    if let Some(x) = r {
        let true_ticks = t & !1;
        check!(
            x.get::<second>().to_bits() == ((true_ticks as f64) / FREQ).to_bits(),
            "C20:model:time-is-true-time"
        );
    }
}

/// Same with the marker counter fixed (`C`): every edge of that half wrap.
pub fn model_fixed<const C: u32>() {
    let low = sym::u32();
    sym::assume((low as u64) < HALF);
    let t = (C as u64 + 1) * HALF + low as u64;
    let ch = sym::u8();
    sym::assume(ch < 59);
    let r = chronobox_time(edge(ch, t), Some(marker(C)), Some(marker(C + 1)));
    witness!(low == 0, "edge-right-at-the-marker");
    check!(r.is_some(), "C20:model:enclosed-edge-gets-a-time");
    if let Some(x) = r {
        let true_ticks = t & !1;
        check!(
            x.get::<second>().to_bits() == ((true_ticks as f64) / FREQ).to_bits(),
            "C20:model:time-is-true-time"
        );
    }
}

/// Soundness: whatever the entry and the (optional) markers, a reported time
/// implies two consecutive, consistent markers with the edge on the right side,
/// and the time is the documented formula.
pub fn soundness() {
    let ts = sym::u32();
    let ch = sym::u8();
    sym::assume(ch < 59);
    let tsc = TimestampCounter::verif_new(ch, ts, sym::bool()).unwrap();
    let (hp, hn) = (sym::bool(), sym::bool());
    let (pc, nc) = (sym::u32(), sym::u32());
    let (pt, nt) = (sym::bool(), sym::bool());
    let prev = if hp { Some(WrapAroundMarker::verif_new(pt, pc)) } else { None };
    let next = if hn { Some(WrapAroundMarker::verif_new(nt, nc)) } else { None };
    let r = chronobox_time(tsc, prev, next);
    let pc = pc & 0x7F_FFFF;
    let nc = nc & 0x7F_FFFF;
    let ts24 = ts & 0xFF_FFFE;
    let consistent = hp && hn && pc + 1 == nc && pt != nt && ((ts24 >> 23) == 1) != pt;
    witness!(r.is_some(), "some-time");
    witness!(r.is_none() && hp && hn, "no-time-despite-two-markers");
    check!(r.is_some() == consistent, "C20:soundness:time-iff-enclosed-and-consistent");
    if let Some(x) = r {
        let ticks = ts24 as u64 + ((pc as u64 + 1) / 2) * WRAP;
        check!(
            x.get::<second>().to_bits() == ((ticks as f64) / FREQ).to_bits(),
            "C20:soundness:formula"
        );
    }
}

/// Displacement and marker faults under the hardware model: an edge of half
/// wrap `c` that is read between the wrong pair of markers, or around a
/// dropped / duplicated marker, never gets a time.
pub fn displacement() {
    let t = sym::u64();
    sym::assume(t >= 2 * HALF && t < 16 * HALF);
    let ch = sym::u8();
    sym::assume(ch < 59);
    let c = (t / HALF - 1) as u32;
    let e = edge(ch, t);
    witness!(true, "reached");
    check!(
        chronobox_time(e, Some(marker(c + 1)), Some(marker(c + 2))).is_none(),
        "C20:displaced-late"
    );
    check!(
        chronobox_time(e, Some(marker(c - 1)), Some(marker(c))).is_none(),
        "C20:displaced-early"
    );
    check!(
        chronobox_time(e, Some(marker(c)), Some(marker(c + 2))).is_none(),
        "C20:dropped-marker"
    );
    check!(
        chronobox_time(e, Some(marker(c)), Some(marker(c))).is_none(),
        "C20:duplicated-marker"
    );
    check!(
        chronobox_time(e, Some(marker(c)), None).is_none() && chronobox_time(e, None, Some(marker(c + 1))).is_none(),
        "C20:missing-marker"
    );
}

// ---- row loop --------------------------------------------------------------

#[derive(Clone, Copy)]
enum Spec {
    T { ch: u8, ts: u32, trailing: bool },
    M { top: bool, counter: u32 },
}

fn spec_time(ts: u32, prev: Option<(bool, u32)>, next: Option<(bool, u32)>) -> Option<u64> {
    match (prev, next) {
        (Some((pt, pc)), Some((nt, nc))) if pc + 1 == nc && pt != nt && ((ts >> 23) == 1) != pt => {
            Some(ts as u64 + ((pc as u64 + 1) / 2) * WRAP)
        }
        _ => None,
    }
}

/// `main()`'s row loop on a FIFO of `N` entries that starts (as `main` has
/// ensured) with the counter-0 marker; entries 1.. are arbitrary timestamps and
/// markers. One row per timestamp, in order, right channel/edge, and the time
/// column filled exactly as the enclosing markers dictate.
pub fn row_loop<const N: usize>() {
    let mut spec = [Spec::M { top: false, counter: 0 }; N];
    let mut fifo: Vec<FifoEntry> = Vec::with_capacity(N);
    fifo.push(FifoEntry::WrapAroundMarker(WrapAroundMarker::verif_new(false, 0)));
    let mut i = 1;
    while i < N {
        if sym::bool() {
            let (top, counter) = (sym::bool(), sym::u32() & 0x7F_FFFF);
            spec[i] = Spec::M { top, counter };
            fifo.push(FifoEntry::WrapAroundMarker(WrapAroundMarker::verif_new(top, counter)));
        } else {
            let (ch, ts, trailing) = (sym::u8() % 59, sym::u32() & 0xFF_FFFE, sym::bool());
            spec[i] = Spec::T { ch, ts, trailing };
            fifo.push(FifoEntry::TimestampCounter(
                TimestampCounter::verif_new(ch, ts, trailing).unwrap(),
            ));
        }
        i += 1;
    }
    let out = rows(vec![(String::new(), fifo)]);
    // reference rows
    let mut k = 0usize; // next row expected
    let mut count_ok = true;
    let mut fields_ok = true;
    let mut time_ok = true;
    let mut i = 1;
    while i < N {
        if let Spec::T { ch, ts, trailing } = spec[i] {
            // nearest markers around entry i
            let mut prev = None;
            let mut j = 0;
            while j < i {
                if let Spec::M { top, counter } = spec[j] {
                    prev = Some((top, counter));
                }
                j += 1;
            }
            let mut next = None;
            let mut j = N;
            while j > i + 1 {
                j -= 1;
                if let Spec::M { top, counter } = spec[j] {
                    next = Some((top, counter));
                }
            }
            if k < out.len() {
                let r = &out[k];
                fields_ok &= r.channel == ch && r.leading_edge == !trailing && r.board.is_empty();
                let want = spec_time(ts, prev, next).map(|t| ((t as f64) / FREQ).to_bits());
                time_ok &= r.chronobox_time.map(|x| x.to_bits()) == want;
            } else {
                count_ok = false;
            }
            k += 1;
        }
        i += 1;
    }
    witness!(k == N - 1, "all-timestamps");
    witness!(k >= 1 && out.len() >= 1 && out[0].chronobox_time.is_some(), "a-row-with-a-time");
    check!(count_ok && out.len() == k, "C20:rows:one-row-per-timestamp");
    check!(fields_ok, "C20:rows:channel-edge-in-stream-order");
    check!(time_ok, "C20:rows:time-column");
    std::mem::forget(out);
}
