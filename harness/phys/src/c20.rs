//! C20 - Chronobox timestamps CSV never reports a wrong time.
//!
//! Decided on the units of `alpha-g-chronobox-timestamps` that can be called:
//! the private `fn chronobox_time` and the row loop of `main()`, both cut
//! verbatim out of the current source (see lib/gen_extract.py).

use crate::extracted_cbts::{chronobox_ticks, chronobox_time, rows, rows_enc};
use crate::sym;
use alpha_g_detector::chronobox::{FifoEntry, TimestampCounter, WrapAroundMarker};
use uom::si::time::second;

const HALF: u64 = 1 << 23;
const WRAP: u64 = 1 << 24;
const FREQ: f64 = 10e6;

/// Hardware model: marker `c` (counter c, top bit = c odd) is written when the
/// 24-bit counter crosses its (c+1)-th half wrap, i.e. at tick (c+1)*2^23.
fn marker(c: u32) -> WrapAroundMarker {
    WrapAroundMarker::verif_new(c % 2 == 1, c)
}

fn edge(channel: u8, t: u64) -> TimestampCounter {
    // the FIFO word carries T mod 2^24; bit 0 is the edge flag
    TimestampCounter::verif_new(channel, (t % WRAP) as u32, t & 1 == 1).unwrap()
}

/// Model: an edge at true tick `T` within the first 8 wraps, enclosed by the
/// two markers the hardware wrote around it, gets exactly its true time.
pub fn model() {
    let t = sym::u64();
    sym::assume(t >= HALF && t < 16 * HALF);
    let ch = sym::u8();
    sym::assume(ch < 59);
    let c = (t / HALF - 1) as u32;
    let r = chronobox_time(edge(ch, t), Some(marker(c)), Some(marker(c + 1)));
    witness!(c == 14, "last-half-wrap");
    check!(r.is_some(), "C20:model:enclosed-edge-gets-a-time");
    if let Some(x) = r {
        let true_ticks = t & !1;
        check!(
            x.get::<second>().to_bits() == ((true_ticks as f64) / FREQ).to_bits(),
            "C20:model:time-is-true-time"
        );
    }
}

/// Integer lemma that ties the documented formula to the hardware model: for
/// an edge at true tick `T` and the two markers the hardware wrote around it,
/// the consistency conditions hold and `ts + ((c+1)/2) * 2^24` is the true
/// tick. (`soundness` ties the code to that formula for ALL inputs.)
pub fn model_lemma() {
    let t = sym::u64();
    sym::assume(t >= HALF && t < 16 * HALF);
    let c = (t / HALF - 1) as u32;
    let (prev, next) = (marker(c), marker(c + 1));
    let e = edge(0, t);
    let ts24 = e.timestamp();
    witness!(c == 14, "last-half-wrap");
    check!(ts24 as u64 == (t % WRAP) & !1, "C20:lemma:fifo-word-carries-T-mod-2^24");
    let consistent = prev.wrap_around_counter() + 1 == next.wrap_around_counter()
        && prev.timestamp_top_bit != next.timestamp_top_bit
        && ((ts24 >> 23) == 1) != prev.timestamp_top_bit;
    check!(consistent, "C20:lemma:hardware-markers-are-consistent");
    let ticks = ts24 as u64 + ((prev.wrap_around_counter() as u64 + 1) / 2) * WRAP;
    check!(ticks == t & !1, "C20:lemma:formula-is-true-tick");
}

/// Same with the marker counter fixed (`C`): every edge of that half wrap.
pub fn model_fixed<const C: u32>() {
    let low = sym::u32();
    sym::assume((low as u64) < HALF);
    let t = (C as u64 + 1) * HALF + low as u64;
    let ch = sym::u8();
    sym::assume(ch < 59);
    let r = chronobox_time(edge(ch, t), Some(marker(C)), Some(marker(C + 1)));
    witness!(low == 0, "edge-right-at-the-marker");
    check!(r.is_some(), "C20:model:enclosed-edge-gets-a-time");
    if let Some(x) = r {
        let true_ticks = t & !1;
        check!(
            x.get::<second>().to_bits() == ((true_ticks as f64) / FREQ).to_bits(),
            "C20:model:time-is-true-time"
        );
    }
}

/// Soundness: whatever the entry and the (optional) markers, a reported time
/// implies two consecutive, consistent markers with the edge on the right side,
/// and the time is the documented formula.
pub fn soundness() {
    let ts = sym::u32();
    let ch = sym::u8();
    sym::assume(ch < 59);
    let tsc = TimestampCounter::verif_new(ch, ts, sym::bool()).unwrap();
    let (hp, hn) = (sym::bool(), sym::bool());
    let (pc, nc) = (sym::u32(), sym::u32());
    let (pt, nt) = (sym::bool(), sym::bool());
    let prev = if hp { Some(WrapAroundMarker::verif_new(pt, pc)) } else { None };
    let next = if hn { Some(WrapAroundMarker::verif_new(nt, nc)) } else { None };
    let r = chronobox_time(tsc, prev, next);
    let pc = pc & 0x7F_FFFF;
    let nc = nc & 0x7F_FFFF;
    let ts24 = ts & 0xFF_FFFE;
    let consistent = hp && hn && pc + 1 == nc && pt != nt && ((ts24 >> 23) == 1) != pt;
    witness!(r.is_some(), "some-time");
    witness!(r.is_none() && hp && hn, "no-time-despite-two-markers");
    check!(r.is_some() == consistent, "C20:soundness:time-iff-enclosed-and-consistent");
    // value: the integer twin of the kernel (same text minus the final int->float
    // division by the 10 MHz constant) returns exactly the documented tick count
    let k = chronobox_ticks(tsc, prev, next);
    check!(k.is_some() == consistent, "C20:soundness:ticks-iff");
    if let Some(k) = k {
        check!(
            k == ts24 as u64 + ((pc as u64 + 1) / 2) * WRAP,
            "C20:soundness:ticks-formula"
        );
    }
}

/// Value clause of `soundness` with both markers present (no `Option`
/// multiplexer between the harness values and the kernel's reads, so that both
/// sides of the float comparison are the same circuit).
pub fn soundness_value() {
    let ts = sym::u32();
    let ch = sym::u8();
    sym::assume(ch < 59);
    let tsc = TimestampCounter::verif_new(ch, ts, sym::bool()).unwrap();
    let (pc, nc) = (sym::u32(), sym::u32());
    let (pt, nt) = (sym::bool(), sym::bool());
    let prev = WrapAroundMarker::verif_new(pt, pc);
    let next = WrapAroundMarker::verif_new(nt, nc);
    let r = chronobox_time(tsc, Some(prev), Some(next));
    if let Some(x) = r {
        let epoch: u32 = (prev.wrap_around_counter() + 1) / 2;
        let time: u64 = u64::from(tsc.timestamp()) + u64::from(epoch) * (1u64 << 24);
        let ticks = (ts & 0xFF_FFFE) as u64 + (((pc & 0x7F_FFFF) as u64 + 1) / 2) * WRAP;
        check!(time == ticks, "C20:soundness:formula-integer");
        // neither side is NaN and only tick 0 gives a zero (+0.0 on both sides)
        let want = (time as f64) / FREQ;
        check!(x.value <= want && x.value >= want, "C20:soundness:formula");
    }
}

/// Displacement and marker faults under the hardware model: an edge of half
/// wrap `c` that is read between the wrong pair of markers, or around a
/// dropped / duplicated marker, never gets a time.
pub fn displacement() {
    let t = sym::u64();
    sym::assume(t >= 2 * HALF && t < 16 * HALF);
    let ch = sym::u8();
    sym::assume(ch < 59);
    let c = (t / HALF - 1) as u32;
    let e = edge(ch, t);
    witness!(true, "reached");
    check!(
        chronobox_time(e, Some(marker(c + 1)), Some(marker(c + 2))).is_none(),
        "C20:displaced-late"
    );
    check!(
        chronobox_time(e, Some(marker(c - 1)), Some(marker(c))).is_none(),
        "C20:displaced-early"
    );
    check!(
        chronobox_time(e, Some(marker(c)), Some(marker(c + 2))).is_none(),
        "C20:dropped-marker"
    );
    check!(
        chronobox_time(e, Some(marker(c)), Some(marker(c))).is_none(),
        "C20:duplicated-marker"
    );
    check!(
        chronobox_time(e, Some(marker(c)), None).is_none() && chronobox_time(e, None, Some(marker(c + 1))).is_none(),
        "C20:missing-marker"
    );
}

// ---- row loop --------------------------------------------------------------

/// Stand-in for `chronobox_time` while the ROW LOOP is decided (the extractor
/// emits a copy of the loop, `rows_enc`, whose single kernel call goes here -
/// used under Kani and in the native replay alike): an injective, float-free encoding of its three
/// arguments (24-bit timestamp, and per marker: presence, top bit, low 11
/// counter bits) in the mantissa of an f64 in [1, 2). The loop never inspects
/// the value, so the time column must equal the encoding of the right entry
/// with the right pair of markers. The kernel itself is decided by `soundness`
/// and `model_lemma`.
pub fn chronobox_time_stub(
    tsc: TimestampCounter,
    previous_marker: Option<WrapAroundMarker>,
    next_marker: Option<WrapAroundMarker>,
) -> Option<uom::si::f64::Time> {
    fn enc(m: Option<WrapAroundMarker>) -> u64 {
        match m {
            Some(m) => 1 | (m.timestamp_top_bit as u64) << 1 | ((m.wrap_around_counter() as u64) & 0x7FF) << 2,
            None => 0,
        }
    }
    let code = tsc.timestamp() as u64 | enc(previous_marker) << 24 | enc(next_marker) << 37;
    Some(uom::si::f64::Time {
        dimension: core::marker::PhantomData,
        units: core::marker::PhantomData,
        value: f64::from_bits(0x3FF0_0000_0000_0000 | code),
    })
}

#[derive(Clone, Copy)]
enum Spec {
    T(TimestampCounter, u8, bool),
    M(WrapAroundMarker),
}

/// `main()`'s row loop on a FIFO of `N` entries that starts (as `main` has
/// ensured) with the counter-0 marker; entries 1.. are arbitrary timestamps and
/// markers. One row per timestamp, in stream order, right channel/edge, and
/// the time column is what the (separately decided) kernel gives for the
/// nearest marker before and the nearest marker after the timestamp.
pub fn row_loop<const N: usize>() {
    let m0 = WrapAroundMarker::verif_new(false, 0);
    let mut spec = [Spec::M(m0); N];
    let mut fifo: Vec<FifoEntry> = Vec::with_capacity(N);
    fifo.push(FifoEntry::WrapAroundMarker(m0));
    let mut i = 1;
    while i < N {
        if sym::bool() {
            let m = WrapAroundMarker::verif_new(sym::bool(), sym::u32());
            spec[i] = Spec::M(m);
            fifo.push(FifoEntry::WrapAroundMarker(m));
        } else {
            let (ch, trailing) = (sym::u8() % 59, sym::bool());
            let t = TimestampCounter::verif_new(ch, sym::u32(), trailing).unwrap();
            spec[i] = Spec::T(t, ch, trailing);
            fifo.push(FifoEntry::TimestampCounter(t));
        }
        i += 1;
    }
    let out = rows_enc(vec![(String::new(), fifo)]);
    // expected rows, in a local array (rows are then compared at concrete indices)
    let mut exp = [(0u8, false, None::<u64>); N];
    let mut k = 0usize;
    let mut i = 1;
    while i < N {
        if let Spec::T(tsc, ch, trailing) = spec[i] {
            let mut prev = None;
            let mut j = 0;
            while j < i {
                if let Spec::M(m) = spec[j] {
                    prev = Some(m);
                }
                j += 1;
            }
            let mut next = None;
            let mut j = N;
            while j > i + 1 {
                j -= 1;
                if let Spec::M(m) = spec[j] {
                    next = Some(m);
                }
            }
            let want = chronobox_time_stub(tsc, prev, next).map(|t| t.get::<second>().to_bits());
            exp[k] = (ch, trailing, want);
            k += 1;
        }
        i += 1;
    }
    witness!(k == N - 1, "all-timestamps");
    witness!(k >= 1 && out.n >= 1, "a-row");
    check!(out.n == k, "C20:rows:one-row-per-timestamp");
    let mut fields_ok = true;
    let mut time_ok = true;
    let mut r = 0;
    while r + 1 < N {
        if r < k && r < out.n {
            let row = &out.rows[r];
            fields_ok &= row.channel == exp[r].0 && row.leading_edge == !exp[r].1 && row.board.is_empty();
            time_ok &= row.chronobox_time.map(|x| x.to_bits()) == exp[r].2;
        }
        r += 1;
    }
    check!(fields_ok, "C20:rows:channel-edge-in-stream-order");
    check!(time_ok, "C20:rows:time-column");
    std::mem::forget(out);
}

// ---- debugging probes (not scheduled) --------------------------------------
pub fn dbg_rows_only<const N: usize>() {
    let mut fifo: Vec<FifoEntry> = Vec::with_capacity(N);
    fifo.push(FifoEntry::WrapAroundMarker(WrapAroundMarker::verif_new(false, 0)));
    let mut i = 1;
    while i < N {
        if sym::bool() {
            fifo.push(FifoEntry::WrapAroundMarker(WrapAroundMarker::verif_new(sym::bool(), sym::u32())));
        } else {
            fifo.push(FifoEntry::TimestampCounter(
                TimestampCounter::verif_new(sym::u8() % 59, sym::u32(), sym::bool()).unwrap(),
            ));
        }
        i += 1;
    }
    let out = rows(vec![(String::new(), fifo)]);
    check!(out.n <= N, "dbg");
    std::mem::forget(out);
}

