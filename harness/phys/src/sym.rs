//! Source of harness inputs.
//!
//! Under Kani every call is `kani::any()`: a fresh symbolic value that the
//! solver quantifies over. In a native build (the replay binary) the calls pop
//! concrete values, in the same order, from a queue that the replay binary
//! fills from the solver's counterexample (`--concrete-playback=print` lists
//! one byte vector per `kani::any()` of a primitive, in call order).
//!
//! `assume` under Kani restricts the quantifier; natively a violated
//! assumption aborts the replay with a distinguished panic message so that the
//! driver can tell "the counterexample does not satisfy the harness
//! assumptions" (encoding problem) from a real reproduction.

#[cfg(not(kani))]
use std::cell::RefCell;
#[cfg(not(kani))]
use std::collections::VecDeque;

#[cfg(not(kani))]
thread_local! {
    static QUEUE: RefCell<VecDeque<Vec<u8>>> = RefCell::new(VecDeque::new());
}

/// Message used by the native `assume`.
pub const ASSUME_FAILED: &str = "VERIF-REPLAY-ASSUMPTION-FAILED";
/// Message used when the queue runs dry.
pub const QUEUE_EMPTY: &str = "VERIF-REPLAY-QUEUE-EMPTY";

#[cfg(not(kani))]
pub fn load(values: Vec<Vec<u8>>) {
    QUEUE.with(|q| *q.borrow_mut() = values.into());
}
#[cfg(not(kani))]
pub fn remaining() -> usize {
    QUEUE.with(|q| q.borrow().len())
}

#[cfg(not(kani))]
fn pop(n: usize) -> Vec<u8> {
    let v = QUEUE
        .with(|q| q.borrow_mut().pop_front())
        .unwrap_or_else(|| panic!("{}", QUEUE_EMPTY));
    assert!(v.len() == n, "VERIF-REPLAY-WIDTH-MISMATCH {} != {}", v.len(), n);
    v
}

macro_rules! prim {
    ($name:ident, $t:ty, $n:expr) => {
        #[inline(always)]
        pub fn $name() -> $t {
            #[cfg(kani)]
            {
                kani::any()
            }
            #[cfg(not(kani))]
            {
                let v = pop($n);
                let mut a = [0u8; $n];
                a.copy_from_slice(&v);
                <$t>::from_le_bytes(a)
            }
        }
    };
}
prim!(u8, u8, 1);
prim!(u16, u16, 2);
prim!(u32, u32, 4);
prim!(u64, u64, 8);
prim!(i16, i16, 2);
prim!(usize, usize, 8);
prim!(f64, f64, 8);

#[inline(always)]
pub fn bool() -> bool {
    #[cfg(kani)]
    {
        kani::any()
    }
    #[cfg(not(kani))]
    {
        pop(1)[0] & 1 == 1
    }
}

/// `N` symbolic bytes (one `any` per byte, in index order).
#[inline(always)]
pub fn bytes<const N: usize>() -> [u8; N] {
    #[cfg(kani)]
    {
        kani::any()
    }
    #[cfg(not(kani))]
    {
        let mut a = [0u8; N];
        for x in a.iter_mut() {
            *x = u8();
        }
        a
    }
}

#[inline(always)]
pub fn assume(c: bool) {
    #[cfg(kani)]
    kani::assume(c);
    #[cfg(not(kani))]
    if !c {
        panic!("{}", ASSUME_FAILED);
    }
}

/// Reachability witness. Under Kani: `kani::cover!`. Natively: nothing.
#[macro_export]
macro_rules! witness {
    ($c:expr, $msg:literal) => {{
        #[cfg(kani)]
        kani::cover!($c, $msg);
        #[cfg(not(kani))]
        {
            let _ = $c;
        }
    }};
}

/// Assertion with a stable tag. The tag is what `known_findings.json` keys on.
#[macro_export]
macro_rules! check {
    ($c:expr, $tag:literal) => {{
        assert!($c, $tag);
    }};
}
