//! C19 (row kernel only) - vertex/scaler CSVs: one row per main event, in order,
//! with unwrapped time.
//!
//! Decided on the one unit of `alpha-g-vertices` / `alpha-g-trg-scalers` that
//! is callable: the `scan` closure of `main()` that turns the per-event results
//! into rows (cut verbatim from the current source, see lib/gen_extract.py; the
//! time column carries the accumulated tick count bit for bit instead of its
//! quotient by 62.5 MHz). File ordering, event filtering, rayon and the CSV
//! writer are outside.

use crate::extracted_csv::{trg_scalers, vertices};
use crate::sym;
use alpha_g_detector::trigger::TrgPacket;
use alpha_g_physics::reconstruction::Coordinate;
use uom::si::f64::Length;
use uom::si::length::meter;

/// Reference: ticks of event i relative to the first decodable event = sum of
/// the 32-bit wrapped differences between consecutive decodable events.
fn reference<const N: usize>(ts: &[Option<u32>; N]) -> ([u64; N], Option<usize>) {
    let mut cum = [0u64; N];
    let mut last: Option<u32> = None;
    let mut first: Option<usize> = None;
    let mut acc = 0u64;
    let mut i = 0;
    while i < N {
        if let Some(t) = ts[i] {
            if let Some(p) = last {
                acc += t.wrapping_sub(p) as u64;
            }
            if first.is_none() {
                first = Some(i);
            }
            last = Some(t);
            cum[i] = acc;
        }
        i += 1;
    }
    (cum, first)
}

pub fn vertices_rows<const N: usize>() {
    let mut ts = [None; N];
    let mut serial = [0u32; N];
    let mut vtx = [false; N];
    let mut input = Vec::with_capacity(N);
    let mut i = 0;
    while i < N {
        serial[i] = sym::u32();
        if sym::bool() {
            ts[i] = Some(sym::u32());
            vtx[i] = sym::bool();
        }
        let v = if vtx[i] {
            Some(Coordinate {
                x: Length::new::<meter>(1.0),
                y: Length::new::<meter>(-2.0),
                z: Length::new::<meter>(0.5),
            })
        } else {
            None
        };
        input.push((serial[i], ts[i], v));
        i += 1;
    }
    let out = vertices::scan_rows(input);
    let (cum, first) = reference(&ts);
    witness!(first.is_some() && ts[N - 1].is_some() && first != Some(N - 1), "two-decodable-events");
    witness!(ts[0].is_none() && first.is_some(), "undecodable-event-first");
    check!(out.n == N, "C19:vertices:one-row-per-event");
    let base = match first {
        Some(f) if f < out.n => out.rows[f].trg_time.map(|x| x.to_bits()).unwrap_or(0),
        _ => 0,
    };
    let mut i = 0;
    while i < N && i < out.n {
        let r = &out.rows[i];
        check!(r.serial_number == serial[i], "C19:vertices:serial-in-order");
        match ts[i] {
            None => check!(
                r.trg_time.is_none() && r.reconstructed_x.is_none() && r.reconstructed_y.is_none() && r.reconstructed_z.is_none(),
                "C19:vertices:undecodable-event-has-empty-fields"
            ),
            Some(_) => {
                check!(r.trg_time.is_some(), "C19:vertices:decodable-event-has-time");
                let t = r.trg_time.map(|x| x.to_bits()).unwrap_or(0);
                check!(t.wrapping_sub(base) == cum[i], "C19:vertices:time-is-sum-of-wrapped-differences");
                if vtx[i] {
                    check!(
                        r.reconstructed_x == Some(1.0) && r.reconstructed_y == Some(-2.0) && r.reconstructed_z == Some(0.5),
                        "C19:vertices:vertex-columns"
                    );
                } else {
                    check!(
                        r.reconstructed_x.is_none() && r.reconstructed_y.is_none() && r.reconstructed_z.is_none(),
                        "C19:vertices:no-vertex-columns"
                    );
                }
            }
        }
        i += 1;
    }
}

pub fn scalers_rows<const N: usize>() {
    let mut ts = [None; N];
    let mut serial = [0u32; N];
    let mut pk: [Option<TrgPacket>; N] = [None; N];
    let mut input = Vec::with_capacity(N);
    let mut i = 0;
    while i < N {
        serial[i] = sym::u32();
        let b: [u8; 80] = sym::bytes::<80>();
        if sym::bool() {
            pk[i] = TrgPacket::try_from(&b[..]).ok();
        }
        ts[i] = pk[i].map(|p| p.timestamp());
        input.push((serial[i], pk[i]));
        i += 1;
    }
    let out = trg_scalers::scan_rows(input);
    let (cum, first) = reference(&ts);
    witness!(first.is_some() && ts[N - 1].is_some() && first != Some(N - 1), "two-decodable-events");
    check!(out.n == N, "C19:scalers:one-row-per-event");
    let base = match first {
        Some(f) if f < out.n => out.rows[f].trg_time.map(|x| x.to_bits()).unwrap_or(0),
        _ => 0,
    };
    let mut i = 0;
    while i < N && i < out.n {
        let r = &out.rows[i];
        check!(r.serial_number == serial[i], "C19:scalers:serial-in-order");
        match pk[i] {
            None => check!(
                r.trg_time.is_none() && r.input.is_none() && r.drift_veto.is_none() && r.scaledown.is_none() && r.pulser.is_none() && r.output.is_none(),
                "C19:scalers:undecodable-event-has-empty-fields"
            ),
            Some(p) => {
                let t = r.trg_time.map(|x| x.to_bits()).unwrap_or(0);
                check!(r.trg_time.is_some() && t.wrapping_sub(base) == cum[i], "C19:scalers:time-is-sum-of-wrapped-differences");
                check!(
                    r.input == Some(p.input_counter())
                        && r.drift_veto == p.drift_veto_counter()
                        && r.scaledown == p.scaledown_counter()
                        && r.pulser == Some(p.pulser_counter())
                        && r.output == Some(p.output_counter()),
                    "C19:scalers:counter-columns"
                );
            }
        }
        i += 1;
    }
}
