//! Native self-tests run by /verif/setup.sh and by every C18 run: the literal
//! tables handed to the solver must be bit-identical to the tables the crate
//! really uses, and have the shape the harness oracles rely on.

use alpha_g_physics::verif_drift::VerifDriftTables;
use vphys::drift_data::{table, NUM_TABLES, Z_BOUNDS};

#[test]
fn literal_tables_equal_shipped_tables_bitwise() {
    let shipped = VerifDriftTables::shipped();
    assert_eq!(shipped.len(), NUM_TABLES);
    for k in 0..NUM_TABLES {
        let (knots, z) = shipped.raw(k);
        assert_eq!(z.to_bits(), Z_BOUNDS[k].to_bits(), "z bound of slice {k}");
        let lit = table(k, 0);
        assert_eq!(knots.len(), lit.len(), "knot count of slice {k}");
        for (i, (a, b)) in knots.iter().zip(lit.iter()).enumerate() {
            assert_eq!(a.0.to_bits(), b.0.to_bits(), "t slice {k} knot {i}");
            assert_eq!(a.1.to_bits(), b.1.to_bits(), "r slice {k} knot {i}");
            assert_eq!(a.2.to_bits(), b.2.to_bits(), "c slice {k} knot {i}");
        }
    }
}

#[test]
fn hook_built_tables_answer_like_shipped_tables() {
    let shipped = VerifDriftTables::shipped();
    for k in 0..NUM_TABLES {
        let lit = table(k, 0);
        let built = VerifDriftTables::new(&[(lit, Z_BOUNDS[k])]);
        let z = if k == 0 { 0.0 } else { 0.5 * (Z_BOUNDS[k - 1] + Z_BOUNDS[k]) };
        for i in 0..lit.len() {
            let mut ts = vec![lit[i].0];
            if i + 1 < lit.len() {
                ts.push(0.5 * (lit[i].0 + lit[i + 1].0));
            }
            for t in ts {
                let a = shipped.at(z, t).unwrap();
                let b = built.at(z, t).unwrap();
                assert_eq!(a.0.to_bits(), b.0.to_bits());
                assert_eq!(a.1.to_bits(), b.1.to_bits());
            }
        }
    }
}

#[test]
fn table_shape_assumed_by_the_oracles() {
    for k in 0..NUM_TABLES {
        let t = table(k, 0);
        assert!(t.len() >= 2);
        for w in t.windows(2) {
            assert!(w[0].0 < w[1].0, "times ascend");
            assert!(w[0].1 > w[1].1, "radius descends");
            assert!(w[0].2 <= w[1].2, "correction ascends");
        }
        assert!(t[0].2 >= 0.0);
        if k > 0 {
            assert!(Z_BOUNDS[k - 1] < Z_BOUNDS[k]);
        }
    }
}

#[test]
fn static_aliasing_tables_answer_like_shipped_tables() {
    use uom::si::f64::Length;
    use uom::si::length::meter;
    use vphys::drift_data::qtable;
    let shipped = VerifDriftTables::shipped();
    for k in 0..NUM_TABLES {
        let lit = table(k, 0);
        let built = VerifDriftTables::from_static(&[(qtable(k, 0), Length::new::<meter>(Z_BOUNDS[k]))]);
        let z = if k == 0 { 0.0 } else { 0.5 * (Z_BOUNDS[k - 1] + Z_BOUNDS[k]) };
        for i in 0..lit.len() {
            let t = if i + 1 < lit.len() { 0.5 * (lit[i].0 + lit[i + 1].0) } else { lit[i].0 };
            let a = shipped.at(z, t).unwrap();
            let b = built.at(z, t).unwrap();
            assert_eq!(a.0.to_bits(), b.0.to_bits());
            assert_eq!(a.1.to_bits(), b.1.to_bits());
        }
    }
}


#[test]
fn windows_are_consecutive_knots_of_their_table() {
    for k in 0..NUM_TABLES {
        let full = table(k, 0);
        let n = full.len();
        let f = table(k, 1);
        let l = table(k, 2);
        let m = table(k, 3);
        assert_eq!(f, &full[..f.len()]);
        assert_eq!(l, &full[n - l.len()..]);
        let a = n / 2 - m.len() / 2;
        assert_eq!(m, &full[a..a + m.len()]);
        use uom::si::{angle::radian, length::meter, time::second};
        for mode in 0..4 {
            let t = table(k, mode);
            let q = vphys::drift_data::qtable(k, mode);
            assert_eq!(t.len(), q.len());
            for (x, y) in t.iter().zip(q.iter()) {
                assert_eq!(x.0.to_bits(), y.0.get::<second>().to_bits());
                assert_eq!(x.1.to_bits(), y.1.get::<meter>().to_bits());
                assert_eq!(x.2.to_bits(), y.2.get::<radian>().to_bits());
            }
        }
    }
}
