use alpha_g_physics::verif_drift::VerifDriftTables;

fn main() {
    let t = VerifDriftTables::shipped();
    println!("tables {}", t.len());
    for k in 0..t.len() {
        let (knots, z) = t.raw(k);
        println!("slice {} {:#018x} {}", k, z.to_bits(), knots.len());
        for (a, b, c) in knots {
            println!("{:#018x} {:#018x} {:#018x}", a.to_bits(), b.to_bits(), c.to_bits());
        }
    }
}
