//! Native self-tests run by /verif/setup.sh: they validate the things the
//! solver runs *trust* - the CRC model and the reference predicates - against
//! the real crate and the repository's own test vectors.

use vdet::oracle::crc32c_model;

struct Lcg(u64);
impl Lcg {
    fn next(&mut self) -> u64 {
        self.0 = self.0.wrapping_mul(6364136223846793005).wrapping_add(1442695040888963407);
        self.0 >> 24
    }
}

#[test]
fn crc_model_matches_real_crate() {
    assert_eq!(crc32c_model(b"Hello world!"), 0x7B98_E751);
    assert_eq!(crc32c::crc32c(b"Hello world!"), 0x7B98_E751);
    let mut g = Lcg(1);
    for _ in 0..100_000 {
        let n = (g.next() % 65) as usize;
        let v: Vec<u8> = (0..n).map(|_| g.next() as u8).collect();
        assert_eq!(crc32c_model(&v), crc32c::crc32c(&v));
    }
    // long buffers take the table-driven / 3-way hardware paths
    for n in [255usize, 256, 257, 1000, 8192, 8193, 30000] {
        let v: Vec<u8> = (0..n).map(|_| g.next() as u8).collect();
        assert_eq!(crc32c_model(&v), crc32c::crc32c(&v));
    }
}

const TRG_GOOD: [u8; 80] = [
    255, 0, 0, 0, 0, 0, 0, 128, 254, 0, 0, 0, 0, 0, 0, 0, 3, 0, 0, 0, 0, 0, 0, 0, 5, 0, 0, 0, 6, 0,
    0, 0, 7, 0, 0, 0, 8, 0, 0, 128, 2, 0, 0, 0, 1, 0, 0, 0, 0, 0, 0, 0, 9, 0, 10, 0, 11, 0, 0, 0,
    0, 0, 0, 0, 12, 0, 0, 0, 13, 0, 0, 0, 14, 0, 0, 0, 0, 0, 0, 224,
];

#[test]
fn c06_body_on_repository_vector() {
    assert!(vdet::c06::spec(&TRG_GOOD));
    vdet::c06::trg_iff_body(&TRG_GOOD);
    let mut g = Lcg(7);
    // single-byte corruptions of the good packet: body must not panic natively
    for _ in 0..20_000 {
        let mut b = TRG_GOOD;
        let i = (g.next() % 80) as usize;
        b[i] = g.next() as u8;
        vdet::c06::trg_iff_body(&b);
    }
}

const ADC_SHORT: [u8; 16] = [1, 3, 0, 4, 5, 6, 2, 187, 0, 0, 0, 7, 224, 0, 0, 0];
const ADC_LONG: [u8; 166] = [
    1, 3, 0, 1, 2, 3, 2, 187, 0, 0, 0, 4, 0, 0, 216, 128, 57, 104, 142, 82, 0, 0, 0, 0, 0, 0, 0, 5,
    0, 0, 0, 6, 255, 224, 255, 225, 255, 226, 255, 227, 255, 228, 255, 229, 255, 230, 255, 231,
    255, 232, 255, 233, 255, 234, 255, 235, 255, 236, 255, 237, 255, 238, 255, 239, 255, 240, 255,
    241, 255, 242, 255, 243, 255, 244, 255, 245, 255, 246, 255, 247, 255, 248, 255, 249, 255, 250,
    255, 251, 255, 252, 255, 253, 255, 254, 255, 255, 0, 1, 0, 2, 0, 3, 0, 4, 0, 5, 0, 6, 0, 7, 0,
    8, 0, 9, 0, 10, 0, 11, 0, 12, 0, 13, 0, 14, 0, 15, 0, 16, 0, 17, 0, 18, 0, 19, 0, 20, 0, 21, 0,
    22, 0, 23, 0, 24, 0, 25, 0, 26, 0, 27, 0, 28, 0, 29, 0, 30, 0, 31, 0, 32, 0, 0, 240, 34, 0, 0,
];

#[test]
fn c02_body_on_repository_vectors() {
    assert!(vdet::c02::spec(&ADC_SHORT));
    assert!(vdet::c02::spec(&ADC_LONG));
    vdet::c02::adc_iff_body(&ADC_SHORT);
    vdet::c02::adc_iff_body(&ADC_LONG);
    let mut g = Lcg(11);
    for _ in 0..50_000 {
        let mut b = ADC_LONG;
        // one or two random byte changes: the oracle and the decoder must agree
        for _ in 0..(1 + g.next() % 2) {
            let i = (g.next() % 166) as usize;
            b[i] = g.next() as u8;
        }
        vdet::c02::adc_iff_body(&b);
        let mut s = ADC_SHORT;
        let i = (g.next() % 16) as usize;
        s[i] = g.next() as u8;
        vdet::c02::adc_iff_body(&s);
    }
}

const CHUNK_GOOD: [u8; 28] = [
    236, 40, 255, 135, 2, 0, 0, 0, 3, 0, 0, 1, 5, 0, 1, 0, 143, 203, 131, 81, 255, 0, 0, 0, 122, 92,
    155, 159,
];

#[test]
fn c03_body_on_repository_vector() {
    assert!(vdet::c03::spec(&CHUNK_GOOD));
    vdet::c03::chunk_iff_body(&CHUNK_GOOD);
    let mut g = Lcg(13);
    for _ in 0..50_000 {
        let mut b = CHUNK_GOOD;
        let i = (g.next() % 28) as usize;
        b[i] ^= 1 << (g.next() % 8);
        assert!(!vdet::c03::spec(&b));
        vdet::c03::chunk_iff_body(&b);
    }
}

const PWB_ODD: [u8; 104] = [
    2, 68, 0, 0, 236, 40, 255, 135, 84, 2, 1, 0, 2, 0, 0, 0, 0, 0, 0, 0, 3, 0, 5, 0, 0, 0, 0, 0, 0,
    0, 0, 1, 1, 1, 1, 1, 1, 0, 0, 0, 0, 0, 0, 0, 4, 0, 0, 0, 5, 0, 6, 7, 57, 0, 5, 0, 1, 2, 3, 4,
    5, 6, 7, 8, 9, 10, 0, 0, 65, 0, 5, 0, 11, 12, 13, 14, 15, 16, 17, 18, 19, 20, 0, 0, 73, 0, 5,
    0, 21, 22, 23, 24, 25, 26, 27, 28, 29, 30, 0, 0, 204, 204, 204, 204,
];

#[test]
fn c05_body_on_repository_vector() {
    assert!(vdet::c05::spec(&PWB_ODD));
    let mut g = Lcg(17);
    for q in 0..79u8 {
        vdet::sym::load(vec![vec![q]]);
        vdet::c05::pwb_iff_body(&PWB_ODD, &[]);
    }
    for _ in 0..50_000 {
        let mut b = PWB_ODD;
        let i = (g.next() % 104) as usize;
        b[i] = g.next() as u8;
        vdet::sym::load(vec![vec![(g.next() % 79) as u8]]);
        vdet::c05::pwb_iff_body(&b, &[]);
    }
}

#[test]
fn c07_oracle_on_repository_like_stream() {
    use alpha_g_detector::chronobox::chronobox_fifo;
    // marker, two timestamps, scaler block, timestamp
    let mut s: Vec<u8> = vec![0x01, 0x00, 0x80, 0xFF, 0x11, 0x22, 0x33, 0x80, 0x10, 0x20, 0x30, 0x80 | 58];
    s.extend([0x3C, 0, 0, 0xFE]);
    s.extend(std::iter::repeat(7u8).take(240));
    s.extend([0x05, 0x00, 0x00, 0x81]);
    let mut input = &s[..];
    let v = chronobox_fifo(&mut input);
    assert!(input.is_empty());
    assert_eq!(v.len(), 4);
    let words = [[0x01u8, 0x00, 0x80, 0xFF], [0x11, 0x22, 0x33, 0x80], [0x10, 0x20, 0x30, 0x80 | 58], [0x05, 0x00, 0x00, 0x81]];
    for (e, w) in v.iter().zip(words.iter()) {
        assert!(vdet::c07::entry_matches(e, vdet::c07::classify(w[0], w[1], w[2], w[3])));
    }
}
