//! Native self-tests run by /verif/setup.sh: they validate the things the
//! solver runs *trust* - the CRC model and the reference predicates - against
//! the real crate and the repository's own test vectors.

use vdet::oracle::crc32c_model;

struct Lcg(u64);
impl Lcg {
    fn next(&mut self) -> u64 {
        self.0 = self.0.wrapping_mul(6364136223846793005).wrapping_add(1442695040888963407);
        self.0 >> 24
    }
}

#[test]
fn crc_model_matches_real_crate() {
    assert_eq!(crc32c_model(b"Hello world!"), 0x7B98_E751);
    assert_eq!(crc32c::crc32c(b"Hello world!"), 0x7B98_E751);
    let mut g = Lcg(1);
    for _ in 0..100_000 {
        let n = (g.next() % 65) as usize;
        let v: Vec<u8> = (0..n).map(|_| g.next() as u8).collect();
        assert_eq!(crc32c_model(&v), crc32c::crc32c(&v));
    }
    // long buffers take the table-driven / 3-way hardware paths
    for n in [255usize, 256, 257, 1000, 8192, 8193, 30000] {
        let v: Vec<u8> = (0..n).map(|_| g.next() as u8).collect();
        assert_eq!(crc32c_model(&v), crc32c::crc32c(&v));
    }
}

const TRG_GOOD: [u8; 80] = [
    255, 0, 0, 0, 0, 0, 0, 128, 254, 0, 0, 0, 0, 0, 0, 0, 3, 0, 0, 0, 0, 0, 0, 0, 5, 0, 0, 0, 6, 0,
    0, 0, 7, 0, 0, 0, 8, 0, 0, 128, 2, 0, 0, 0, 1, 0, 0, 0, 0, 0, 0, 0, 9, 0, 10, 0, 11, 0, 0, 0,
    0, 0, 0, 0, 12, 0, 0, 0, 13, 0, 0, 0, 14, 0, 0, 0, 0, 0, 0, 224,
];

#[test]
fn c06_body_on_repository_vector() {
    assert!(vdet::c06::spec(&TRG_GOOD));
    vdet::c06::trg_iff_body(&TRG_GOOD);
    let mut g = Lcg(7);
    // single-byte corruptions of the good packet: body must not panic natively
    for _ in 0..20_000 {
        let mut b = TRG_GOOD;
        let i = (g.next() % 80) as usize;
        b[i] = g.next() as u8;
        vdet::c06::trg_iff_body(&b);
    }
}
