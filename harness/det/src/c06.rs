//! C06 - TRG packet decoding is exact and decoded counters are ordered.
//!
//! The reference predicate `spec` is written from the property statement and
//! the documented layout table only; it never calls the implementation.

use crate::sym;
use alpha_g_detector::trigger::{TrgPacket, TrgV3Packet};

fn le32(b: &[u8], o: usize) -> u32 {
    (b[o] as u32) | (b[o + 1] as u32) << 8 | (b[o + 2] as u32) << 16 | (b[o + 3] as u32) << 24
}

/// Reference acceptance predicate of an 80-byte TRG v3 packet.
pub fn spec(b: &[u8]) -> bool {
    if b.len() != 80 {
        return false;
    }
    let udp = le32(b, 0);
    let header = le32(b, 4);
    let output = le32(b, 12);
    let input = le32(b, 16);
    let w36 = le32(b, 36);
    let drift = le32(b, 40);
    let scaledown = le32(b, 44);
    let w48 = le32(b, 48);
    let w52 = le32(b, 52);
    let w64 = le32(b, 64);
    let w68 = le32(b, 68);
    let footer = le32(b, 76);
    let low28 = 0x0FFF_FFFFu32;
    (udp >> 31) == 0
        && (header >> 28) == 0x8
        && (footer >> 28) == 0xE
        && (header & low28) == (output & low28)
        && (footer & low28) == (output & low28)
        // bits 16..=30 of word 36 are reserved
        && ((w36 >> 16) & 0x7FFF) == 0
        && w48 == 0
        && (w52 >> 24) == 0
        && (w64 >> 8) == 0
        && (w68 >> 8) == 0
        && output <= scaledown
        && scaledown <= drift
        && drift <= input
}

/// Rebuild the 80 bytes from the accessor values (documented layout).
#[allow(clippy::too_many_arguments)]
fn reencode(p: &TrgV3Packet, header_mark_and_low28: (u32, u32)) -> [u8; 80] {
    let mut o = [0u8; 80];
    let put = |o: &mut [u8; 80], off: usize, v: u32| {
        o[off] = v as u8;
        o[off + 1] = (v >> 8) as u8;
        o[off + 2] = (v >> 16) as u8;
        o[off + 3] = (v >> 24) as u8;
    };
    let low28 = p.output_counter() & 0x0FFF_FFFF;
    put(&mut o, 0, p.udp_counter());
    put(&mut o, 4, header_mark_and_low28.0 | low28);
    put(&mut o, 8, p.timestamp());
    put(&mut o, 12, p.output_counter());
    put(&mut o, 16, p.input_counter());
    put(&mut o, 20, p.pulser_counter());
    put(&mut o, 24, p.trigger_bitmap());
    put(&mut o, 28, p.nim_bitmap());
    put(&mut o, 32, p.esata_bitmap());
    put(
        &mut o,
        36,
        (p.aw16_prompt() as u32) | if p.satisfied_mlu() { 0x8000_0000 } else { 0 },
    );
    put(&mut o, 40, p.drift_veto_counter());
    put(&mut o, 44, p.scaledown_counter());
    put(&mut o, 48, 0);
    put(
        &mut o,
        52,
        (p.aw16_bus() as u32) | (p.aw16_multiplicity() as u32) << 16,
    );
    let bus = p.bsc64_bus();
    put(&mut o, 56, bus as u32);
    put(&mut o, 60, (bus >> 32) as u32);
    put(&mut o, 64, p.bsc64_multiplicity() as u32);
    put(&mut o, 68, p.coincidence_latch() as u32);
    put(&mut o, 72, p.firmware_revision());
    put(&mut o, 76, header_mark_and_low28.1 | low28);
    o
}

/// iff + accessors + ordering + re-encoding on one concrete-length input.
pub fn trg_iff_body(b: &[u8]) {
    let r = TrgV3Packet::try_from(b);
    let want = spec(b);
    witness!(r.is_ok(), "accepted");
    witness!(r.is_err() && b.len() == 80, "rejected-80");
    witness!(r.is_err() && b.len() != 80, "rejected-other-length");
    check!(r.is_ok() == want, "C06:iff");
    if let Ok(p) = &r {
        check!(p.udp_counter() == le32(b, 0), "C06:acc:udp_counter");
        check!(p.timestamp() == le32(b, 8), "C06:acc:timestamp");
        check!(p.output_counter() == le32(b, 12), "C06:acc:output_counter");
        check!(p.input_counter() == le32(b, 16), "C06:acc:input_counter");
        check!(p.pulser_counter() == le32(b, 20), "C06:acc:pulser_counter");
        check!(p.trigger_bitmap() == le32(b, 24), "C06:acc:trigger_bitmap");
        check!(p.nim_bitmap() == le32(b, 28), "C06:acc:nim_bitmap");
        check!(p.esata_bitmap() == le32(b, 32), "C06:acc:esata_bitmap");
        check!(
            p.satisfied_mlu() == (b[39] & 0x80 != 0),
            "C06:acc:satisfied_mlu"
        );
        check!(
            p.aw16_prompt() == (b[36] as u16 | (b[37] as u16) << 8),
            "C06:acc:aw16_prompt"
        );
        check!(
            p.drift_veto_counter() == le32(b, 40),
            "C06:acc:drift_veto_counter"
        );
        check!(
            p.scaledown_counter() == le32(b, 44),
            "C06:acc:scaledown_counter"
        );
        check!(p.aw16_multiplicity() == b[54], "C06:acc:aw16_multiplicity");
        check!(
            p.aw16_bus() == (b[52] as u16 | (b[53] as u16) << 8),
            "C06:acc:aw16_bus"
        );
        check!(
            p.bsc64_bus() == (le32(b, 56) as u64 | (le32(b, 60) as u64) << 32),
            "C06:acc:bsc64_bus"
        );
        check!(
            p.bsc64_multiplicity() == b[64],
            "C06:acc:bsc64_multiplicity"
        );
        check!(p.coincidence_latch() == b[68], "C06:acc:coincidence_latch");
        check!(
            p.firmware_revision() == le32(b, 72),
            "C06:acc:firmware_revision"
        );
        // ordering on the decoded values
        check!(
            p.output_counter() <= p.scaledown_counter()
                && p.scaledown_counter() <= p.drift_veto_counter()
                && p.drift_veto_counter() <= p.input_counter(),
            "C06:order"
        );
        // re-encoding
        let e = reencode(p, (0x8000_0000, 0xE000_0000));
        let mut i = 0;
        let mut same = true;
        while i < 80 {
            same &= e[i] == b[i];
            i += 1;
        }
        check!(same, "C06:reencode");
    }
    // enum wrapper agrees
    let w = TrgPacket::try_from(b);
    check!(w.is_ok() == r.is_ok(), "C06:wrapper:iff");
    if let (Ok(w), Ok(p)) = (&w, &r) {
        check!(
            w.is_v3()
                && w.udp_counter() == p.udp_counter()
                && w.timestamp() == p.timestamp()
                && w.output_counter() == p.output_counter()
                && w.input_counter() == p.input_counter()
                && w.pulser_counter() == p.pulser_counter()
                && w.trigger_bitmap() == p.trigger_bitmap()
                && w.nim_bitmap() == p.nim_bitmap()
                && w.esata_bitmap() == p.esata_bitmap()
                && w.satisfied_mlu() == Some(p.satisfied_mlu())
                && w.aw16_prompt() == Some(p.aw16_prompt())
                && w.drift_veto_counter() == Some(p.drift_veto_counter())
                && w.scaledown_counter() == Some(p.scaledown_counter())
                && w.aw16_multiplicity() == Some(p.aw16_multiplicity())
                && w.aw16_bus() == Some(p.aw16_bus())
                && w.bsc64_bus() == Some(p.bsc64_bus())
                && w.bsc64_multiplicity() == Some(p.bsc64_multiplicity())
                && w.coincidence_latch() == Some(p.coincidence_latch())
                && w.firmware_revision() == Some(p.firmware_revision()),
            "C06:wrapper:accessors"
        );
    }
    std::mem::forget(r);
    std::mem::forget(w);
}

/// All contents of length `L`.
pub fn trg_iff<const L: usize>() {
    let b: [u8; L] = sym::bytes::<L>();
    trg_iff_body(&b);
}

/// Totality only (C01): any outcome, no assertion besides Kani's own checks.
pub fn trg_total<const L: usize>() {
    let b: [u8; L] = sym::bytes::<L>();
    let r = TrgV3Packet::try_from(&b[..]);
    witness!(r.is_err(), "rejected");
    std::mem::forget(r);
    let w = TrgPacket::try_from(&b[..]);
    std::mem::forget(w);
}
