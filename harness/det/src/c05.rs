//! C05 - PWB packet decoding is exact (and the PWB-packet part of C01).
//!
//! Size-steering fields (both channel masks, `requested_samples`, slice
//! length) are assigned per instance; everything else is symbolic.

use crate::oracle::PADWING_MACS;
use crate::sym;
use alpha_g_detector::padwing::{
    AfterId, ChannelId, Compression, FpnChannelId, PadChannelId, PwbPacket, PwbV2Packet,
    ResetChannelId, Trigger,
};

fn le16(b: &[u8], o: usize) -> u16 {
    b[o] as u16 | (b[o + 1] as u16) << 8
}
fn le32(b: &[u8], o: usize) -> u32 {
    le16(b, o) as u32 | (le16(b, o + 2) as u32) << 16
}

fn known_mac(m: &[u8]) -> bool {
    let mut k = 0;
    let mut f = false;
    while k < PADWING_MACS.len() {
        let a = &PADWING_MACS[k];
        f |= a[0] == m[0]
            && a[1] == m[1]
            && a[2] == m[2]
            && a[3] == m[3]
            && a[4] == m[4]
            && a[5] == m[5];
        k += 1;
    }
    f
}

fn bit(b: &[u8], base: usize, i: usize) -> bool {
    b[base + i / 8] >> (i % 8) & 1 == 1
}

/// Documented readout-index table: 1-3 reset, 16/29/54/67 FPN 1-4, the other
/// 72 indices in 4..=79 are pads 1..=72 in ascending order.
pub fn readout_to_channel(r: u16) -> Option<ChannelId> {
    match r {
        1..=3 => Some(ChannelId::Reset(ResetChannelId::try_from(r).ok()?)),
        16 => Some(ChannelId::Fpn(FpnChannelId::try_from(1).ok()?)),
        29 => Some(ChannelId::Fpn(FpnChannelId::try_from(2).ok()?)),
        54 => Some(ChannelId::Fpn(FpnChannelId::try_from(3).ok()?)),
        67 => Some(ChannelId::Fpn(FpnChannelId::try_from(4).ok()?)),
        4..=79 => {
            let fpn_below = (r > 16) as u16 + (r > 29) as u16 + (r > 54) as u16 + (r > 67) as u16;
            Some(ChannelId::Pad(PadChannelId::try_from(r - 3 - fpn_below).ok()?))
        }
        _ => None,
    }
}

/// Reference acceptance predicate.
pub fn spec(b: &[u8]) -> bool {
    let len = b.len();
    if len < 56 {
        return false;
    }
    if b[0] != 2 || !(b'A'..=b'D').contains(&b[1]) || b[2] != 0 {
        return false;
    }
    if !(b[3] == 0 || b[3] == 1 || b[3] == 3) || !known_mac(&b[4..10]) {
        return false;
    }
    if b[18] != 0 || b[19] != 0 || le16(b, 20) > 511 {
        return false;
    }
    let rs = le16(b, 22) as usize;
    if rs > 511 || bit(b, 24, 79) || bit(b, 34, 79) {
        return false;
    }
    let mut n = 0usize;
    let mut i = 0;
    while i < 79 {
        n += bit(b, 24, i) as usize;
        i += 1;
    }
    let bpc = 4 + 2 * rs + if rs % 2 == 1 { 2 } else { 0 };
    if len - 52 != n * bpc + 4 {
        return false;
    }
    let mut j = 0usize;
    let mut i = 0;
    while i < 79 {
        if bit(b, 24, i) {
            let o = 52 + j * bpc;
            if le16(b, o) as usize != i + 1 || le16(b, o + 2) as usize != rs {
                return false;
            }
            if rs % 2 == 1 && (b[o + 4 + 2 * rs] != 0 || b[o + 4 + 2 * rs + 1] != 0) {
                return false;
            }
            j += 1;
        }
        i += 1;
    }
    b[len - 4] == 0xCC && b[len - 3] == 0xCC && b[len - 2] == 0xCC && b[len - 1] == 0xCC
}

fn list_matches_mask(list: &[ChannelId], b: &[u8], base: usize) -> bool {
    // the list equals the set bits of the mask, ascending, through the table
    let mut j = 0usize;
    let mut ok = true;
    let mut i = 0;
    while i < 79 {
        if bit(b, base, i) {
            ok &= j < list.len() && Some(list[j]) == readout_to_channel(i as u16 + 1);
            j += 1;
        }
        i += 1;
    }
    ok && j == list.len()
}

fn check_waveform(p: &PwbV2Packet, b: &[u8], q: usize, rs: usize) {
    let len = b.len();
    let c = readout_to_channel(q as u16 + 1).unwrap();
    let w = p.waveform_at(c);
    if bit(b, 24, q) {
        // position of q among the set bits
        let mut j = 0usize;
        let mut i = 0;
        while i < 79 {
            if i < q && bit(b, 24, i) {
                j += 1;
            }
            i += 1;
        }
        let bpc = 4 + 2 * rs + if rs % 2 == 1 { 2 } else { 0 };
        let o = 52 + j * bpc + 4;
        check!(w.is_some(), "C05:waveform:present");
        if let Some(w) = w {
            check!(w.len() == rs, "C05:waveform:length");
            let mut k = 0;
            let mut same = true;
            while k < rs && k < w.len() && o + 2 * k + 1 < len {
                same &= w[k] == le16(b, o + 2 * k) as i16;
                k += 1;
            }
            check!(same, "C05:waveform:samples");
        }
    } else {
        check!(w.is_none(), "C05:waveform:absent");
    }
}

pub fn pwb_iff_body(b: &[u8], qs: &[usize]) {
    let len = b.len();
    let r = PwbV2Packet::try_from(b);
    let want = spec(b);
    witness!(r.is_ok(), "accepted");
    witness!(r.is_err(), "rejected");
    check!(r.is_ok() == want, "C05:iff");
    if let Ok(p) = &r {
        check!(p.packet_version() == 2, "C05:acc:version");
        let a = match p.after_id() {
            AfterId::A => b'A',
            AfterId::B => b'B',
            AfterId::C => b'C',
            AfterId::D => b'D',
        };
        check!(a == b[1], "C05:acc:after_id");
        check!(matches!(p.compression(), Compression::Raw) && b[2] == 0, "C05:acc:compression");
        let t = match p.trigger_source() {
            Trigger::External => 0,
            Trigger::Manual => 1,
            Trigger::InternalPulse => 3,
        };
        check!(t == b[3], "C05:acc:trigger_source");
        check!(
            p.board_id().mac_address() == [b[4], b[5], b[6], b[7], b[8], b[9]],
            "C05:acc:board_id"
        );
        check!(p.trigger_delay() == le16(b, 10), "C05:acc:trigger_delay");
        check!(
            p.trigger_timestamp() == le32(b, 12) as u64 | (le16(b, 16) as u64) << 32,
            "C05:acc:trigger_timestamp"
        );
        check!(p.last_sca_cell() == le16(b, 20), "C05:acc:last_sca_cell");
        let rs = le16(b, 22) as usize;
        check!(p.requested_samples() == rs, "C05:acc:requested_samples");
        check!(
            list_matches_mask(p.channels_sent(), b, 24),
            "C05:acc:channels_sent"
        );
        check!(
            list_matches_mask(p.channels_over_threshold(), b, 34),
            "C05:acc:channels_over_threshold"
        );
        check!(p.event_counter() == le32(b, 44), "C05:acc:event_counter");
        check!(p.fifo_max_depth() == le16(b, 48), "C05:acc:fifo_max_depth");
        check!(
            p.event_descriptor_write_depth() == b[50] && p.event_descriptor_read_depth() == b[51],
            "C05:acc:event_descriptor_depths"
        );
        // waveforms: for an arbitrary readout index q (one symbolic q), or for
        // the listed concrete ones (two-channel instances: a lookup at a
        // symbolic position in the heap-backed sample vector is what the
        // solver cannot digest)
        if qs.is_empty() {
            let q = sym::u8() as usize;
            sym::assume(q < 79);
            check_waveform(p, b, q, rs);
        } else {
            let mut i = 0;
            while i < qs.len() {
                check_waveform(p, b, qs[i], rs);
                i += 1;
            }
        }
        // Re-encoding: fixed bytes. All other bytes are the accessor values
        // compared above, the block headers/padding/end marker fixed by `spec`.
        check!(b[0] == 2 && b[2] == 0 && b[18] == 0 && b[19] == 0, "C05:reencode:fixed");
    }
    let w = PwbPacket::try_from(b);
    check!(w.is_ok() == r.is_ok(), "C05:wrapper:iff");
    std::mem::forget(r);
    std::mem::forget(w);
}

fn set_bit<const L: usize>(b: &mut [u8; L], base: usize, i: i32) {
    if i >= 0 {
        b[base + (i as usize) / 8] |= 1 << (i as usize % 8);
    }
}

fn shape<const L: usize>(b: &mut [u8; L], s0: i32, s1: i32, t: i32, rs: Option<u16>) {
    let mut i = 24;
    while i < 44 {
        b[i] = 0;
        i += 1;
    }
    set_bit(b, 24, s0);
    set_bit(b, 24, s1);
    if t == -2 {
        set_bit(b, 34, s0);
        set_bit(b, 34, s1);
    } else {
        set_bit(b, 34, t);
    }
    if let Some(rs) = rs {
        b[22] = rs as u8;
        b[23] = (rs >> 8) as u8;
    }
}

/// Slice length `L`; sent bits `S0`, `S1` (-1 = none); over-threshold `T`
/// (-1 none, -2 same as sent, else that bit); `requested_samples` = `RS`.
pub fn pwb_iff<const L: usize, const S0: i32, const S1: i32, const T: i32, const RS: u16>() {
    let mut b: [u8; L] = sym::bytes::<L>();
    shape(&mut b, S0, S1, T, Some(RS));
    if S1 >= 0 {
        // both sent channels and one that is not sent
        let unsent = if S0 != 40 && S1 != 40 { 40 } else { 41 };
        pwb_iff_body(&b, &[S0 as usize, S1 as usize, unsent]);
    } else {
        pwb_iff_body(&b, &[]);
    }
}

/// No channel sent, `requested_samples` and `last_sca_cell` fully symbolic
/// (decides the `<= 511` rules for all 65536 values of each).
pub fn pwb_iff_nochan<const L: usize, const T: i32>() {
    let mut b: [u8; L] = sym::bytes::<L>();
    shape(&mut b, -1, -1, T, None);
    pwb_iff_body(&b, &[]);
}

/// Totality (C01), same shapes.
pub fn pwb_total<const L: usize, const S0: i32, const S1: i32, const T: i32, const RS: u16>() {
    let mut b: [u8; L] = sym::bytes::<L>();
    shape(&mut b, S0, S1, T, Some(RS));
    let r = PwbV2Packet::try_from(&b[..]);
    witness!(r.is_err(), "rejected");
    std::mem::forget(r);
    let w = PwbPacket::try_from(&b[..]);
    std::mem::forget(w);
}

/// Totality for short slices (rejected before any field is read).
pub fn pwb_total_free<const L: usize>() {
    let b: [u8; L] = sym::bytes::<L>();
    let r = PwbV2Packet::try_from(&b[..]);
    witness!(r.is_err(), "rejected");
    std::mem::forget(r);
}
