//! C02 - ADC packet decoding is exact (and the ADC part of C01).
//!
//! `spec` is the decision table of the property statement, evaluated in signed
//! 64-bit arithmetic so that `requested_samples - 2` and `(keep_last-1)*2-2`
//! mean what the documentation means (no wrap-around).

use crate::oracle::ALPHA16_MACS;
use crate::sym;
use alpha_g_detector::alpha16::{
    Adc16ChannelId, Adc32ChannelId, AdcPacket, AdcV3Packet, ChannelId, ModuleId,
};

fn be16(b: &[u8], o: usize) -> u16 {
    (b[o] as u16) << 8 | b[o + 1] as u16
}
fn be32(b: &[u8], o: usize) -> u32 {
    (be16(b, o) as u32) << 16 | be16(b, o + 2) as u32
}

fn known_mac(m: &[u8]) -> bool {
    let mut k = 0;
    let mut found = false;
    while k < ALPHA16_MACS.len() {
        let a = &ALPHA16_MACS[k];
        found |= a[0] == m[0]
            && a[1] == m[1]
            && a[2] == m[2]
            && a[3] == m[3]
            && a[4] == m[4]
            && a[5] == m[5];
        k += 1;
    }
    found
}

/// Reference acceptance predicate.
pub fn spec(b: &[u8]) -> bool {
    let len = b.len();
    if len < 16 {
        return false;
    }
    if b[0] != 1 || b[1] != 3 || b[4] > 7 {
        return false;
    }
    let ch = b[5];
    if !(ch <= 15 || (128..=159).contains(&ch)) {
        return false;
    }
    let rs = be16(b, 6) as i64;
    let footer = be16(b, len - 4);
    let keep_last = (footer & 0x0FFF) as i64;
    let keep_bit = footer & 0x1000 != 0;
    let supp = footer & 0x2000 != 0;
    if len == 16 {
        return supp && !keep_bit && keep_last == 0;
    }
    if len < 36 || b[12] != 0 || b[13] != 0 || !known_mac(&b[14..20]) {
        return false;
    }
    if (len - 36) % 2 != 0 {
        return false;
    }
    let n = ((len - 36) / 2) as i64;
    if n < 64 {
        return false;
    }
    let mut sum: i64 = 0;
    let mut i = 0;
    while i < 64 {
        sum += (be16(b, 32 + 2 * i) as i16) as i64;
        i += 1;
    }
    let base = (be16(b, len - 2) as i16) as i64;
    if base != sum.div_euclid(64) {
        return false;
    }
    let last_index = (keep_last - 1) * 2 - 2;
    if supp {
        keep_bit && keep_last >= 34 && n > last_index && n <= rs - 2
    } else {
        (if keep_bit {
            keep_last >= 34 && n > last_index
        } else {
            keep_last == 0
        }) && n == rs - 2
    }
}

fn chan_byte(c: ChannelId) -> u8 {
    // there is no integer conversion in the API: find the byte by comparison
    match c {
        ChannelId::A16(x) => {
            let mut v = 0u8;
            let mut k = 0u8;
            while k < 16 {
                if Adc16ChannelId::try_from(k).ok() == Some(x) {
                    v = k;
                }
                k += 1;
            }
            v
        }
        ChannelId::A32(x) => {
            let mut v = 0u8;
            let mut k = 0u8;
            while k < 32 {
                if Adc32ChannelId::try_from(k).ok() == Some(x) {
                    v = k;
                }
                k += 1;
            }
            128 + v
        }
    }
}

pub fn adc_iff_body(b: &[u8]) {
    let len = b.len();
    let r = AdcV3Packet::try_from(b);
    let want = spec(b);
    witness!(r.is_ok() && len == 16, "accepted-16");
    witness!(
        r.is_ok() && len > 16 && (b[len - 4] & 0x20) != 0,
        "accepted-suppression-on"
    );
    witness!(
        r.is_ok() && len > 16 && (b[len - 4] & 0x20) == 0,
        "accepted-suppression-off"
    );
    witness!(r.is_err(), "rejected");
    check!(r.is_ok() == want, "C02:iff");
    if let Ok(p) = &r {
        check!(p.packet_type() == 1 && p.packet_version() == 3, "C02:acc:type-version");
        check!(p.accepted_trigger() == be16(b, 2), "C02:acc:accepted_trigger");
        check!(
            Some(p.module_id()) == ModuleId::try_from(b[4]).ok(),
            "C02:acc:module_id"
        );
        check!(chan_byte(p.channel_id()) == b[5], "C02:acc:channel_id");
        check!(
            p.requested_samples() == be16(b, 6) as usize,
            "C02:acc:requested_samples"
        );
        let footer = be16(b, len - 4);
        check!(
            p.keep_last() == (footer & 0x0FFF) as usize,
            "C02:acc:keep_last"
        );
        check!(p.keep_bit() == (footer & 0x1000 != 0), "C02:acc:keep_bit");
        check!(
            p.is_suppression_enabled() == (footer & 0x2000 != 0),
            "C02:acc:suppression_enabled"
        );
        check!(
            p.suppression_baseline() == be16(b, len - 2) as i16,
            "C02:acc:suppression_baseline"
        );
        if len == 16 {
            check!(
                p.event_timestamp() == be32(b, 8) as u64,
                "C02:acc16:event_timestamp"
            );
            check!(
                p.board_id().is_none()
                    && p.trigger_offset().is_none()
                    && p.build_timestamp().is_none()
                    && p.waveform().is_empty(),
                "C02:acc16:absent-fields"
            );
        } else {
            check!(
                p.event_timestamp() == (be32(b, 20) as u64) << 32 | be32(b, 8) as u64,
                "C02:acc:event_timestamp"
            );
            let mac = p.board_id().map(|x| x.mac_address());
            check!(
                mac == Some([b[14], b[15], b[16], b[17], b[18], b[19]]),
                "C02:acc:board_id"
            );
            check!(
                p.trigger_offset() == Some(be32(b, 24) as i32),
                "C02:acc:trigger_offset"
            );
            check!(
                p.build_timestamp() == Some(be32(b, 28)),
                "C02:acc:build_timestamp"
            );
            let n = (len - 36) / 2;
            check!(p.waveform().len() == n, "C02:acc:waveform-len");
            let w = p.waveform();
            let mut i = 0;
            let mut same = w.len() == n;
            while i < n && i < w.len() {
                same &= w[i] == be16(b, 32 + 2 * i) as i16;
                i += 1;
            }
            check!(same, "C02:acc:waveform");
        }
        // Re-encoding: every input byte is a function of the accessor values,
        // apart from footer bits 14 and 15. Bytes 0..12 and the footer are the
        // accessor comparisons above; what remains are the constant bytes.
        check!(b[0] == 1 && b[1] == 3, "C02:reencode:type-version");
        if len > 16 {
            check!(b[12] == 0 && b[13] == 0, "C02:reencode:zero-bytes");
        }
    }
    let w = AdcPacket::try_from(b);
    check!(w.is_ok() == r.is_ok(), "C02:wrapper:iff");
    if let (Ok(w), Ok(p)) = (&w, &r) {
        check!(
            w.is_v3()
                && w.accepted_trigger() == p.accepted_trigger()
                && w.module_id() == p.module_id()
                && chan_byte(w.channel_id()) == chan_byte(p.channel_id())
                && w.requested_samples() == p.requested_samples()
                && w.event_timestamp() == p.event_timestamp()
                && w.board_id() == p.board_id()
                && w.trigger_offset() == p.trigger_offset()
                && w.build_timestamp() == p.build_timestamp()
                && w.waveform().len() == p.waveform().len()
                && w.suppression_baseline() == Some(p.suppression_baseline())
                && w.keep_last() == Some(p.keep_last())
                && w.keep_bit() == Some(p.keep_bit())
                && w.is_suppression_enabled() == Some(p.is_suppression_enabled()),
            "C02:wrapper:accessors"
        );
    }
    std::mem::forget(r);
    std::mem::forget(w);
}

/// All contents of length `L`.
pub fn adc_iff<const L: usize>() {
    let b: [u8; L] = sym::bytes::<L>();
    adc_iff_body(&b);
}

/// Length `L`, `requested_samples` assigned to `RS`, footer flags/keep_last
/// symbolic: cells of the decision table around requested_samples 0,1,2,n+1..n+3.
pub fn adc_iff_rs<const L: usize, const RS: u16>() {
    let mut b: [u8; L] = sym::bytes::<L>();
    b[6] = (RS >> 8) as u8;
    b[7] = RS as u8;
    adc_iff_body(&b);
}

/// As `adc_iff`, but only the samples with index 0, 1, 62, 63 and >= 64 are
/// symbolic; samples 2..=61 are assigned zero (quick tier: the baseline sum is
/// then a 4-term sum). Header, MAC, footer and every other byte stay free.
pub fn adc_iff_sparse<const L: usize>() {
    let mut b: [u8; L] = sym::bytes::<L>();
    let mut i = 2;
    while i < 62 {
        if 32 + 2 * i + 1 < L {
            b[32 + 2 * i] = 0;
            b[32 + 2 * i + 1] = 0;
        }
        i += 1;
    }
    adc_iff_body(&b);
}

/// Totality only (C01): Kani's own checks (panic, overflow, bounds, unwinding).
pub fn adc_total<const L: usize>() {
    let b: [u8; L] = sym::bytes::<L>();
    let r = AdcV3Packet::try_from(&b[..]);
    witness!(r.is_err(), "rejected");
    std::mem::forget(r);
    let w = AdcPacket::try_from(&b[..]);
    std::mem::forget(w);
}
