//! Generated instance lists (see /verif/lib/instances.py).
#![allow(non_snake_case)]
include!("all.rs");
