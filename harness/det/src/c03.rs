//! C03 - PWB chunks are integrity-checked (and the chunk part of C01).
//!
//! Sizes are concrete (slice length `L`, declared payload length `K` assigned
//! into bytes 14-15); every other byte is symbolic. The CRC the reference
//! predicate uses is `oracle::crc32c_model`, written down here bit-serially;
//! the implementation calls `crc32c::crc32c`, which under `cfg(kani)` is the
//! vendored bit-serial stand-in (validated natively against the real crate).

use crate::oracle::{crc32c_model, PADWING_DEVICE_IDS};
use crate::sym;
use alpha_g_detector::padwing::{AfterId, Chunk};

fn le16(b: &[u8], o: usize) -> u16 {
    b[o] as u16 | (b[o + 1] as u16) << 8
}
fn le32(b: &[u8], o: usize) -> u32 {
    le16(b, o) as u32 | (le16(b, o + 2) as u32) << 16
}

fn known_device(id: u32) -> bool {
    let mut k = 0;
    let mut f = false;
    while k < PADWING_DEVICE_IDS.len() {
        f |= PADWING_DEVICE_IDS[k] == id;
        k += 1;
    }
    f
}

/// Reference acceptance predicate of a chunk.
pub fn spec(b: &[u8]) -> bool {
    let len = b.len();
    if len < 28 || len % 4 != 0 {
        return false;
    }
    if !known_device(le32(b, 0)) || b[10] > 3 || b[11] > 1 {
        return false;
    }
    let k = le16(b, 14) as usize;
    // declared length matches the slice up to at most 3 padding bytes
    if k + 24 > len || k + 27 < len {
        return false;
    }
    let mut i = 20 + k;
    while i < len - 4 {
        if b[i] != 0 {
            return false;
        }
        i += 1;
    }
    le32(b, 16) == !crc32c_model(&b[0..16]) && le32(b, len - 4) == !crc32c_model(&b[20..len - 4])
}

fn set_len<const L: usize>(b: &mut [u8; L], k: u16) {
    b[14] = k as u8;
    b[15] = (k >> 8) as u8;
}

fn after_byte(a: AfterId) -> u8 {
    match a {
        AfterId::A => 0,
        AfterId::B => 1,
        AfterId::C => 2,
        AfterId::D => 3,
    }
}

pub fn chunk_iff_body(b: &[u8]) {
    let len = b.len();
    let r = Chunk::try_from(b);
    let want = spec(b);
    witness!(r.is_ok(), "accepted");
    witness!(r.is_err(), "rejected");
    check!(r.is_ok() == want, "C03:iff");
    if let Ok(c) = &r {
        // field-wise round trip: every accepted byte is one of these fields,
        // a zero padding byte, or a CRC word that `spec` ties to the bytes
        let k = le16(b, 14) as usize;
        check!(c.board_id().device_id() == le32(b, 0), "C03:acc:device_id");
        check!(c.packet_sequence() == le32(b, 4), "C03:acc:packet_sequence");
        check!(c.channel_sequence() == le16(b, 8), "C03:acc:channel_sequence");
        check!(after_byte(c.after_id()) == b[10], "C03:acc:after_id");
        check!(c.is_end_of_message() == (b[11] == 1), "C03:acc:end_of_message");
        check!(c.chunk_id() == le16(b, 12), "C03:acc:chunk_id");
        let p = c.payload();
        check!(p.len() == k, "C03:acc:payload-len");
        let mut i = 0;
        let mut same = true;
        while i < k && i < p.len() && 20 + i < len {
            same &= p[i] == b[20 + i];
            i += 1;
        }
        check!(same, "C03:acc:payload");
    }
    std::mem::forget(r);
}

/// Length `L`, declared payload length `K`, everything else symbolic.
pub fn chunk_iff<const L: usize, const K: u16>() {
    let mut b: [u8; L] = sym::bytes::<L>();
    set_len(&mut b, K);
    chunk_iff_body(&b);
}

/// The recomputing accessors reproduce the stored CRC words (round trip of the
/// two CRC fields through `header_crc32c()` / `payload_crc32c()`).
pub fn chunk_crc_accessors<const L: usize, const K: u16>() {
    let mut b: [u8; L] = sym::bytes::<L>();
    set_len(&mut b, K);
    let id = PADWING_DEVICE_IDS[0];
    b[0] = id as u8;
    b[1] = (id >> 8) as u8;
    b[2] = (id >> 16) as u8;
    b[3] = (id >> 24) as u8;
    let r = Chunk::try_from(&b[..]);
    witness!(r.is_ok(), "accepted");
    if let Ok(c) = &r {
        check!(c.header_crc32c() == le32(&b, 16), "C03:acc:header_crc32c");
        check!(c.payload_crc32c() == le32(&b, L - 4), "C03:acc:payload_crc32c");
    }
    std::mem::forget(r);
}

/// Totality only (C01). `K` is assigned; see `chunk_total_free` for free `K`.
pub fn chunk_total<const L: usize, const K: u16>() {
    let mut b: [u8; L] = sym::bytes::<L>();
    set_len(&mut b, K);
    let r = Chunk::try_from(&b[..]);
    witness!(r.is_err(), "rejected");
    std::mem::forget(r);
}

/// Totality, all contents including the declared length.
pub fn chunk_total_free<const L: usize>() {
    let b: [u8; L] = sym::bytes::<L>();
    let r = Chunk::try_from(&b[..]);
    witness!(r.is_err(), "rejected");
    std::mem::forget(r);
}

// ---- fault detection ------------------------------------------------------

/// Base chunk: symbolic, device id = documented board number `D` (assigned so
/// that the 71-entry lookup of the *unflipped* chunk folds), declared length
/// `K`, assumed accepted.
fn accepted_base<const L: usize, const K: u16, const D: usize>() -> [u8; L] {
    let mut b: [u8; L] = sym::bytes::<L>();
    set_len(&mut b, K);
    let id = PADWING_DEVICE_IDS[D];
    b[0] = id as u8;
    b[1] = (id >> 8) as u8;
    b[2] = (id >> 16) as u8;
    b[3] = (id >> 24) as u8;
    let r0 = Chunk::try_from(&b[..]);
    sym::assume(r0.is_ok());
    std::mem::forget(r0);
    b
}

fn must_reject<const L: usize>(b2: &[u8; L]) {
    let r1 = Chunk::try_from(&b2[..]);
    witness!(true, "base-accepted-and-error-injected");
    check!(r1.is_err(), "C03:fault-detected");
    std::mem::forget(r1);
}

fn xor_word<const L: usize>(b: &mut [u8; L], w: usize, e: u32) {
    b[4 * w] ^= e as u8;
    b[4 * w + 1] ^= (e >> 8) as u8;
    b[4 * w + 2] ^= (e >> 16) as u8;
    b[4 * w + 3] ^= (e >> 24) as u8;
}

/// (c2) any non-zero 32-bit error pattern inside the aligned word `W`.
pub fn fault_word<const L: usize, const K: u16, const D: usize, const W: usize>() {
    let mut b = accepted_base::<L, K, D>();
    let e = sym::u32();
    sym::assume(e != 0);
    xor_word(&mut b, W, e);
    must_reject(&b);
}

/// (c3) any burst of at most 32 contiguous bits whose first flipped bit is the
/// bit `OFF` (bit g = bit g%8, LSB first, of byte g/8): symbolic 32-bit
/// pattern with bit 0 set, shifted to `OFF`; bits beyond the chunk are cut.
pub fn fault_burst<const L: usize, const K: u16, const D: usize, const OFF: usize>() {
    let mut b = accepted_base::<L, K, D>();
    let e = sym::u32();
    sym::assume(e & 1 == 1);
    let wide = (e as u64) << (OFF % 8);
    let first = OFF / 8;
    let mut j = 0;
    while j < 5 {
        if first + j < L {
            b[first + j] ^= (wide >> (8 * j)) as u8;
        }
        j += 1;
    }
    must_reject(&b);
}

/// (c4) every error of total weight 1..=3 whose flipped bits lie in the words
/// `W1 < W2` (each word hit at least once).
pub fn fault_w2<const L: usize, const K: u16, const D: usize, const W1: usize, const W2: usize>() {
    let mut b = accepted_base::<L, K, D>();
    let e1 = sym::u32();
    let e2 = sym::u32();
    sym::assume(e1 != 0 && e2 != 0 && e1.count_ones() + e2.count_ones() <= 3);
    xor_word(&mut b, W1, e1);
    xor_word(&mut b, W2, e2);
    must_reject(&b);
}

/// (c4) one flipped bit in each of three distinct words.
pub fn fault_w3<
    const L: usize,
    const K: u16,
    const D: usize,
    const W1: usize,
    const W2: usize,
    const W3: usize,
>() {
    let mut b = accepted_base::<L, K, D>();
    let s1 = sym::u8();
    let s2 = sym::u8();
    let s3 = sym::u8();
    sym::assume(s1 < 32 && s2 < 32 && s3 < 32);
    xor_word(&mut b, W1, 1u32 << s1);
    xor_word(&mut b, W2, 1u32 << s2);
    xor_word(&mut b, W3, 1u32 << s3);
    must_reject(&b);
}

/// (c1) one flipped bit at a fully symbolic position.
pub fn fault_bit<const L: usize, const K: u16, const D: usize>() {
    let mut b = accepted_base::<L, K, D>();
    let pos = sym::u16() as usize;
    sym::assume(pos < 8 * L);
    b[pos / 8] ^= 1u8 << (pos % 8);
    must_reject(&b);
}
