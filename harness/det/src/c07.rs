//! C07 - Chronobox FIFO parsing is faithful, resumable and split-invariant
//! (and the FIFO part of C01).

use crate::sym;
use alpha_g_detector::chronobox::verif_hooks::{verif_fifo_entry, verif_scalers_block};
use alpha_g_detector::chronobox::{chronobox_fifo, EdgeType, FifoEntry};

/// Reference classification of one 32-bit little-endian word.
#[derive(Clone, Copy, PartialEq, Eq)]
pub enum Word {
    /// (channel, 24-bit timestamp with bit 0 cleared, trailing edge)
    Timestamp(u8, u32, bool),
    /// (timestamp top bit, 23-bit counter)
    Marker(bool, u32),
    Neither,
}

pub fn classify(b0: u8, b1: u8, b2: u8, b3: u8) -> Word {
    let low = b0 as u32 | (b1 as u32) << 8 | (b2 as u32) << 16;
    if b3 == 0xFF {
        Word::Marker(low & 0x80_0000 != 0, low & 0x7F_FFFF)
    } else if b3 & 0x80 != 0 && (b3 & 0x7F) < 59 {
        Word::Timestamp(b3 & 0x7F, low & 0xFF_FFFE, low & 1 == 1)
    } else {
        Word::Neither
    }
}

pub fn entry_matches(e: &FifoEntry, w: Word) -> bool {
    match (e, w) {
        (FifoEntry::TimestampCounter(t), Word::Timestamp(ch, ts, trailing)) => {
            u8::from(t.channel) == ch
                && t.timestamp() == ts
                && matches!(t.edge, EdgeType::Trailing) == trailing
        }
        (FifoEntry::WrapAroundMarker(m), Word::Marker(top, counter)) => {
            m.timestamp_top_bit == top && m.wrap_around_counter() == counter
        }
        _ => false,
    }
}

/// All 2^32 words through the real one-entry parser.
pub fn fifo_word() {
    let b: [u8; 4] = sym::bytes::<4>();
    let mut input: &[u8] = &b;
    let r = verif_fifo_entry(&mut input);
    let w = classify(b[0], b[1], b[2], b[3]);
    witness!(matches!(w, Word::Timestamp(..)) && r.is_some(), "timestamp");
    witness!(matches!(w, Word::Marker(..)) && r.is_some(), "marker");
    witness!(matches!(w, Word::Neither) && r.is_none(), "neither");
    check!(r.is_some() == (w != Word::Neither), "C07:word:iff");
    match &r {
        Some(e) => {
            check!(entry_matches(e, w), "C07:word:fields");
            check!(input.is_empty(), "C07:word:consumes-4");
        }
        // a failing one-entry parser may leave `input` advanced: the callers
        // (`repeat`, `separated_foldl1`) restore their checkpoint, which is what
        // the whole-function harnesses below observe
        None => {}
    }
}

/// Short word: fewer than 4 bytes never yield an entry and consume nothing.
pub fn fifo_word_short<const L: usize>() {
    let b: [u8; L] = sym::bytes::<L>();
    let mut input: &[u8] = &b;
    let r = verif_fifo_entry(&mut input);
    witness!(r.is_none(), "rejected");
    check!(r.is_none(), "C07:word:incomplete");
}

/// Scaler block parser on `L` bytes: consumed iff tag and >= 244 bytes, then
/// exactly 244 bytes.
pub fn scalers<const L: usize>() {
    let b: [u8; L] = sym::bytes::<L>();
    let mut input: &[u8] = &b;
    let ok = verif_scalers_block(&mut input);
    let tag = L >= 4 && b[0] == 0x3C && b[1] == 0 && b[2] == 0 && b[3] == 0xFE;
    witness!(ok || L < 244, "consumed-or-short");
    witness!(!ok, "rejected");
    check!(ok == (tag && L >= 244), "C07:scalers:iff");
    if ok {
        check!(input.len() == L - 244, "C07:scalers:consumes-244");
    }
}

/// Reference parse of a stream without any complete scaler block: number of
/// leading words that are entries.
fn leading_entries(b: &[u8]) -> usize {
    let mut n = 0;
    let mut stop = false;
    let mut i = 0;
    while i + 4 <= b.len() {
        if !stop && classify(b[i], b[i + 1], b[i + 2], b[i + 3]) != Word::Neither {
            n += 1;
        } else {
            stop = true;
        }
        i += 4;
    }
    n
}

fn check_prefix(b: &[u8], entries: &[FifoEntry], consumed: usize) {
    let n = leading_entries(b);
    check!(entries.len() == n, "C07:prefix:count");
    check!(consumed == 4 * n, "C07:prefix:remainder");
    let mut k = 0;
    let mut ok = true;
    while k < n && k < entries.len() {
        let i = 4 * k;
        ok &= entry_matches(&entries[k], classify(b[i], b[i + 1], b[i + 2], b[i + 3]));
        k += 1;
    }
    check!(ok, "C07:prefix:fields-in-order");
}

/// Whole function on `L` bytes (L < 244: no complete scaler block can occur).
pub fn fifo_prefix<const L: usize>() {
    let b: [u8; L] = sym::bytes::<L>();
    let mut input: &[u8] = &b;
    let v = chronobox_fifo(&mut input);
    witness!(v.len() == L / 4, "all-words-are-entries");
    witness!(v.is_empty(), "no-entry");
    check_prefix(&b, &v, L - input.len());
    std::mem::forget(v);
}

/// Split invariance at cut `C`: parse(b[..C]) then parse(b[o1..]) == parse(b).
pub fn fifo_split<const L: usize, const C: usize>() {
    let b: [u8; L] = sym::bytes::<L>();
    let mut whole: &[u8] = &b;
    let e = chronobox_fifo(&mut whole);
    let o = L - whole.len();
    let mut first: &[u8] = &b[..C];
    let e1 = chronobox_fifo(&mut first);
    let o1 = C - first.len();
    // remainder of the first piece followed by the second piece = b[o1..]
    let mut second: &[u8] = &b[o1..];
    let e2 = chronobox_fifo(&mut second);
    let o2 = (L - o1) - second.len();
    witness!(e1.len() + e2.len() > 0, "some-entry");
    check!(e.len() == e1.len() + e2.len(), "C07:split:count");
    check!(o == o1 + o2, "C07:split:remainder");
    // field-wise: both sides were matched against the same words
    check_prefix(&b, &e, o);
    check_prefix(&b[..C], &e1, o1);
    check_prefix(&b[o1..], &e2, o2);
    std::mem::forget(e);
    std::mem::forget(e1);
    std::mem::forget(e2);
}

fn put_entry<const L: usize>(b: &mut [u8; L], at: usize) {
    // keep the 24 payload bits symbolic, force the top byte to a valid kind
    let k = sym::u8();
    b[at + 3] = if k & 1 == 1 { 0xFF } else { 0x80 | (k >> 1) % 59 };
}

/// Stream = `A` entries, one scaler block, `B` entries, cut to `L` bytes
/// (L = 4A + 244 + 4B is the complete stream; a smaller L truncates it).
/// Counter bytes of the block and the entries' payload bits are symbolic.
pub fn fifo_block<const L: usize, const A: usize, const B: usize>() {
    let mut full = [0u8; 260];
    let mut i = 0;
    while i < 4 * A + 244 + 4 * B {
        full[i] = sym::u8();
        i += 1;
    }
    let mut k = 0;
    while k < A {
        put_entry(&mut full, 4 * k);
        k += 1;
    }
    let t = 4 * A;
    full[t] = 0x3C;
    full[t + 1] = 0;
    full[t + 2] = 0;
    full[t + 3] = 0xFE;
    let mut k = 0;
    while k < B {
        put_entry(&mut full, t + 244 + 4 * k);
        k += 1;
    }
    let b = &full[..L];
    let mut input: &[u8] = b;
    let v = chronobox_fifo(&mut input);
    let consumed = L - input.len();
    witness!(true, "reached");
    if L >= t + 244 {
        // block complete: entries before and after, block contributes none
        let after = (L - t - 244) / 4;
        check!(v.len() == A + after, "C07:block:count");
        check!(consumed == t + 244 + 4 * after, "C07:block:remainder");
        let mut k = 0;
        let mut ok = true;
        while k < v.len() {
            let i = if k < A { 4 * k } else { t + 244 + 4 * (k - A) };
            ok &= entry_matches(&v[k], classify(b[i], b[i + 1], b[i + 2], b[i + 3]));
            k += 1;
        }
        check!(ok, "C07:block:fields-in-order");
    } else {
        // cut inside the block (or before it): only the leading entries, the
        // slice is left at the block start
        let lead = if L / 4 < A { L / 4 } else { A };
        check!(v.len() == lead, "C07:block:partial-count");
        check!(consumed == 4 * lead, "C07:block:partial-remainder");
    }
    std::mem::forget(v);
}
