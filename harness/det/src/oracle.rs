//! Constants and helpers shared by the reference predicates. Copied from the
//! module documentation of `alpha_g_detector` at design time, NOT imported
//! from the implementation: a mutated table entry in /repo is a detected
//! disagreement, not a silently shared error.

/// Bit-serial CRC-32C (reflected polynomial 0x82F63B78, init/final xor all
/// ones). This is the same algorithm that `/verif/vendor/crc32c` uses under
/// `cfg(kani)`; the native self-test compares it with the real crate.
pub fn crc32c_model(data: &[u8]) -> u32 {
    let mut c: u32 = !0;
    let mut i = 0;
    while i < data.len() {
        c ^= data[i] as u32;
        let mut k = 0;
        while k < 8 {
            c = if c & 1 != 0 { (c >> 1) ^ 0x82F6_3B78 } else { c >> 1 };
            k += 1;
        }
        i += 1;
    }
    !c
}
