//! C08 (detector part) - bank names, id and index conversions, run gating.
//! The same bodies serve the string/id part of C01 (totality).

use crate::oracle::{ALPHA16_MACS, ALPHA16_NAMES, PADWING_DEVICE_IDS, PADWING_MACS, PADWING_NAMES};
use crate::sym;
use alpha_g_detector::alpha16::aw_map::TpcWirePosition;
use alpha_g_detector::alpha16::{Adc16ChannelId, Adc32ChannelId, ModuleId};
use alpha_g_detector::midas::*;
use alpha_g_detector::padwing::map::*;

fn in_names<const N: usize>(t: &[[u8; 2]; N], a: u8, b: u8) -> bool {
    let mut k = 0;
    let mut f = false;
    while k < N {
        f |= t[k][0] == a && t[k][1] == b;
        k += 1;
    }
    f
}

fn digit(c: u8, radix: u8) -> Option<u8> {
    let v = match c {
        b'0'..=b'9' => c - b'0',
        b'A'..=b'Z' => c - b'A' + 10,
        _ => return None,
    };
    if v < radix {
        Some(v)
    } else {
        None
    }
}

// documented patterns, on raw bytes
fn spec_adc16(b: &[u8]) -> bool {
    b.len() == 4 && b[0] == b'B' && in_names(&ALPHA16_NAMES, b[1], b[2]) && digit(b[3], 16).is_some()
}
fn spec_adc32(b: &[u8]) -> bool {
    b.len() == 4 && b[0] == b'C' && in_names(&ALPHA16_NAMES, b[1], b[2]) && digit(b[3], 32).is_some()
}
fn spec_pwb(b: &[u8]) -> bool {
    b.len() == 4 && b[0] == b'P' && b[1] == b'C' && in_names(&PADWING_NAMES, b[2], b[3])
}
fn is(b: &[u8], s: &[u8; 4]) -> bool {
    b.len() == 4 && b[0] == s[0] && b[1] == s[1] && b[2] == s[2] && b[3] == s[3]
}

fn name_eq(n: &str, a: u8, b: u8) -> bool {
    let x = n.as_bytes();
    x.len() == 2 && x[0] == a && x[1] == b
}

/// Parser `P` on the string `s` whose bytes are `b`.
pub fn name_body<const P: usize>(s: &str, b: &[u8]) {
    match P {
        0 => {
            let r = Adc16BankName::try_from(s);
            witness!(r.is_ok(), "accepted");
            witness!(r.is_err(), "rejected");
            check!(r.is_ok() == spec_adc16(b), "C08:name:adc16:iff");
            if let Ok(n) = &r {
                check!(name_eq(n.board_id().name(), b[1], b[2]), "C08:name:adc16:board");
                check!(
                    Some(n.channel_id()) == digit(b[3], 16).and_then(|v| Adc16ChannelId::try_from(v).ok()),
                    "C08:name:adc16:channel"
                );
            }
            std::mem::forget(r);
        }
        1 => {
            let r = Adc32BankName::try_from(s);
            witness!(r.is_ok(), "accepted");
            witness!(r.is_err(), "rejected");
            check!(r.is_ok() == spec_adc32(b), "C08:name:adc32:iff");
            if let Ok(n) = &r {
                check!(name_eq(n.board_id().name(), b[1], b[2]), "C08:name:adc32:board");
                check!(
                    Some(n.channel_id()) == digit(b[3], 32).and_then(|v| Adc32ChannelId::try_from(v).ok()),
                    "C08:name:adc32:channel"
                );
            }
            std::mem::forget(r);
        }
        2 => {
            let r = Alpha16BankName::try_from(s);
            witness!(r.is_ok(), "accepted");
            witness!(r.is_err(), "rejected");
            check!(r.is_ok() == (spec_adc16(b) || spec_adc32(b)), "C08:name:alpha16:iff");
            if let Ok(n) = &r {
                check!(name_eq(n.board_id().name(), b[1], b[2]), "C08:name:alpha16:board");
                check!(
                    matches!(n, Alpha16BankName::A16(_)) == (b[0] == b'B'),
                    "C08:name:alpha16:kind"
                );
            }
            std::mem::forget(r);
        }
        3 => {
            let r = PadwingBankName::try_from(s);
            witness!(r.is_ok(), "accepted");
            witness!(r.is_err(), "rejected");
            check!(r.is_ok() == spec_pwb(b), "C08:name:padwing:iff");
            if let Ok(n) = &r {
                check!(name_eq(n.board_id().name(), b[2], b[3]), "C08:name:padwing:board");
            }
            std::mem::forget(r);
        }
        4 => {
            let r = TriggerBankName::try_from(s);
            witness!(r.is_ok(), "accepted");
            check!(r.is_ok() == is(b, b"ATAT"), "C08:name:trigger:iff");
            let r = Trb3BankName::try_from(s);
            check!(r.is_ok() == is(b, b"TRBA"), "C08:name:trb3:iff");
            let r = McVertexBankName::try_from(s);
            check!(r.is_ok() == is(b, b"MCVX"), "C08:name:mcvertex:iff");
            let r = Seq2BankName::try_from(s);
            check!(r.is_ok() == is(b, b"SEQ2"), "C08:name:seq2:iff");
            let r = ChronoboxBankName::try_from(s);
            let cb = b.len() == 4
                && b[0] == b'C'
                && b[1] == b'B'
                && b[2] == b'F'
                && (b'1'..=b'4').contains(&b[3]);
            check!(r.is_ok() == cb, "C08:name:chronobox:iff");
            if let Ok(n) = &r {
                let x = n.board_id.name().as_bytes();
                check!(
                    x.len() == 4 && x[0] == b'c' && x[1] == b'b' && x[2] == b'0' && x[3] == b[3],
                    "C08:name:chronobox:board"
                );
            }
            std::mem::forget(r);
        }
        _ => {
            let r = MainEventBankName::try_from(s);
            witness!(r.is_ok(), "accepted");
            witness!(r.is_err(), "rejected");
            let want = spec_adc16(b)
                || spec_adc32(b)
                || spec_pwb(b)
                || is(b, b"ATAT")
                || is(b, b"TRBA")
                || is(b, b"MCVX");
            check!(r.is_ok() == want, "C08:name:main:iff");
            if let Ok(n) = &r {
                // the decoded value determines the name: (kind, board, channel) -> bytes
                let ok = match n {
                    MainEventBankName::Alpha16(a) => {
                        (b[0] == b'B' || b[0] == b'C')
                            && matches!(a, Alpha16BankName::A16(_)) == (b[0] == b'B')
                            && name_eq(a.board_id().name(), b[1], b[2])
                            && match a {
                                Alpha16BankName::A16(x) => {
                                    Some(x.channel_id())
                                        == digit(b[3], 16).and_then(|v| Adc16ChannelId::try_from(v).ok())
                                }
                                Alpha16BankName::A32(x) => {
                                    Some(x.channel_id())
                                        == digit(b[3], 32).and_then(|v| Adc32ChannelId::try_from(v).ok())
                                }
                            }
                    }
                    MainEventBankName::Padwing(p) => {
                        b[0] == b'P' && b[1] == b'C' && name_eq(p.board_id().name(), b[2], b[3])
                    }
                    MainEventBankName::Trg(_) => is(b, b"ATAT"),
                    MainEventBankName::Trb3(_) => is(b, b"TRBA"),
                    MainEventBankName::McVertex(_) => is(b, b"MCVX"),
                };
                check!(ok, "C08:name:main:decoded-determines-name");
            }
            std::mem::forget(r);
        }
    }
}

/// Every ASCII string of `N` bytes through parser `P`.
pub fn name_ascii<const N: usize, const P: usize>() {
    let b: [u8; N] = sym::bytes::<N>();
    let mut i = 0;
    while i < N {
        sym::assume(b[i] < 128);
        i += 1;
    }
    // ASCII is valid UTF-8
    let s = match core::str::from_utf8(&b) {
        Ok(s) => s,
        Err(_) => return,
    };
    name_body::<P>(s, &b);
}

/// Every valid UTF-8 string of `N` bytes (invalid byte strings are skipped).
pub fn name_utf8<const N: usize, const P: usize>() {
    let b: [u8; N] = sym::bytes::<N>();
    if let Ok(s) = core::str::from_utf8(&b) {
        witness!(b[0] >= 128, "non-ascii-string-parsed");
        name_body::<P>(s, &b);
    }
}

/// Board names: `alpha16::BoardId`, `padwing::BoardId`, `chronobox::BoardId` from `&str`.
pub fn board_names<const N: usize>() {
    let b: [u8; N] = sym::bytes::<N>();
    if let Ok(s) = core::str::from_utf8(&b) {
        let r = alpha_g_detector::alpha16::BoardId::try_from(s);
        witness!(r.is_ok(), "alpha16-accepted");
        check!(
            r.is_ok() == (N == 2 && in_names(&ALPHA16_NAMES, b[0], b[N - 1])),
            "C08:board:alpha16:iff"
        );
        std::mem::forget(r);
        let r = alpha_g_detector::padwing::BoardId::try_from(s);
        check!(
            r.is_ok() == (N == 2 && in_names(&PADWING_NAMES, b[0], b[N - 1])),
            "C08:board:padwing:iff"
        );
        std::mem::forget(r);
        let r = alpha_g_detector::chronobox::BoardId::try_from(s);
        check!(
            r.is_ok()
                == (N == 4 && b[0] == b'c' && b[1] == b'b' && b[2] == b'0' && (b'1'..=b'4').contains(&b[N - 1])),
            "C08:board:chronobox:iff"
        );
        std::mem::forget(r);
    }
}

/// Integer id conversions over their full domains.
pub fn ids_small() {
    let x = sym::u8();
    check!(Adc16ChannelId::try_from(x).is_ok() == (x <= 15), "C08:id:adc16");
    check!(Adc32ChannelId::try_from(x).is_ok() == (x <= 31), "C08:id:adc32");
    check!(ModuleId::try_from(x).is_ok() == (x <= 7), "C08:id:module");
    check!(
        alpha_g_detector::padwing::AfterId::try_from(x).is_ok() == (x <= 3),
        "C08:id:after-u8"
    );
    check!(
        alpha_g_detector::padwing::Compression::try_from(x).is_ok() == (x == 0),
        "C08:id:compression"
    );
    check!(
        alpha_g_detector::padwing::Trigger::try_from(x).is_ok() == (x == 0 || x == 1 || x == 3),
        "C08:id:trigger"
    );
    check!(
        alpha_g_detector::chronobox::ChannelId::try_from(x).is_ok() == (x < 59),
        "C08:id:chronobox-channel"
    );
    if let Ok(c) = alpha_g_detector::chronobox::ChannelId::try_from(x) {
        check!(u8::from(c) == x, "C08:id:chronobox-channel-roundtrip");
    }
    let y = sym::u16();
    use alpha_g_detector::padwing::{ChannelId, FpnChannelId, PadChannelId, ResetChannelId};
    check!(ResetChannelId::try_from(y).is_ok() == (1..=3).contains(&y), "C08:id:reset");
    check!(FpnChannelId::try_from(y).is_ok() == (1..=4).contains(&y), "C08:id:fpn");
    check!(PadChannelId::try_from(y).is_ok() == (1..=72).contains(&y), "C08:id:pad");
    let r = ChannelId::try_from(y);
    check!(r.is_ok() == (1..=79).contains(&y), "C08:id:readout-iff");
    if let Ok(c) = r {
        check!(Some(c) == crate::c05::readout_to_channel(y), "C08:id:readout-table");
    }
    check!(EventId::try_from(y).is_ok() == (y == 1 || y == 4 || y == 8), "C08:id:event");
    let ch = sym::u32();
    if let Some(c) = char::from_u32(ch) {
        check!(
            alpha_g_detector::padwing::AfterId::try_from(c).is_ok() == ('A'..='D').contains(&c),
            "C08:id:after-char"
        );
    }
    witness!(true, "reached");
}

/// MAC / device id conversions: accepted iff in the documented table, and the
/// three identities of a PadWing board belong to the same row.
pub fn ids_mac() {
    let m: [u8; 6] = sym::bytes::<6>();
    let mut k = 0;
    let mut a16 = false;
    while k < 8 {
        a16 |= ALPHA16_MACS[k] == m;
        k += 1;
    }
    let r = alpha_g_detector::alpha16::BoardId::try_from(m);
    witness!(r.is_ok(), "alpha16-mac-accepted");
    check!(r.is_ok() == a16, "C08:id:alpha16-mac-iff");
    if let Ok(bd) = r {
        check!(bd.mac_address() == m, "C08:id:alpha16-mac-roundtrip");
        let n = bd.name().as_bytes();
        let mut k = 0;
        let mut row_ok = false;
        while k < 8 {
            row_ok |= ALPHA16_MACS[k] == m && n.len() == 2 && n[0] == ALPHA16_NAMES[k][0] && n[1] == ALPHA16_NAMES[k][1];
            k += 1;
        }
        check!(row_ok, "C08:id:alpha16-mac-name-row");
    }
    let mut k = 0;
    let mut pw = false;
    while k < 71 {
        pw |= PADWING_MACS[k] == m;
        k += 1;
    }
    let r = alpha_g_detector::padwing::BoardId::try_from(m);
    witness!(r.is_ok(), "padwing-mac-accepted");
    check!(r.is_ok() == pw, "C08:id:padwing-mac-iff");
    if let Ok(bd) = r {
        check!(bd.mac_address() == m, "C08:id:padwing-mac-roundtrip");
        let n = bd.name().as_bytes();
        let mut k = 0;
        let mut row_ok = false;
        while k < 71 {
            row_ok |= PADWING_MACS[k] == m
                && PADWING_DEVICE_IDS[k] == bd.device_id()
                && n.len() == 2
                && n[0] == PADWING_NAMES[k][0]
                && n[1] == PADWING_NAMES[k][1];
            k += 1;
        }
        check!(row_ok, "C08:id:padwing-row");
    }
    let d = sym::u32();
    let mut k = 0;
    let mut known = false;
    while k < 71 {
        known |= PADWING_DEVICE_IDS[k] == d;
        k += 1;
    }
    let r = alpha_g_detector::padwing::BoardId::try_from(d);
    check!(r.is_ok() == known, "C08:id:padwing-device-iff");
    if let Ok(bd) = r {
        check!(bd.device_id() == d, "C08:id:padwing-device-roundtrip");
    }
}

/// Index conversions.
pub fn indices() {
    let i = sym::usize();
    check!(TpcWirePosition::try_from(i).is_ok() == (i < 256), "C08:index:wire");
    if let Ok(w) = TpcWirePosition::try_from(i) {
        check!(usize::from(w) == i, "C08:index:wire-roundtrip");
    }
    check!(TpcPwbColumn::try_from(i).is_ok() == (i < 8), "C08:index:pwb-column");
    check!(TpcPwbRow::try_from(i).is_ok() == (i < 8), "C08:index:pwb-row");
    check!(PwbPadColumn::try_from(i).is_ok() == (i < 4), "C08:index:pad-column-in-pwb");
    check!(PwbPadRow::try_from(i).is_ok() == (i < 72), "C08:index:pad-row-in-pwb");
    check!(TpcPadColumn::try_from(i).is_ok() == (i < 32), "C08:index:pad-column");
    check!(TpcPadRow::try_from(i).is_ok() == (i < 576), "C08:index:pad-row");
    if let Ok(c) = TpcPadColumn::try_from(i) {
        check!(usize::from(c) == i, "C08:index:pad-column-roundtrip");
    }
    if let Ok(r) = TpcPadRow::try_from(i) {
        check!(usize::from(r) == i, "C08:index:pad-row-roundtrip");
    }
    // TpcPadPosition::new: never panics, injective in its four indices
    let (c, r, pc, pr) = (sym::u8() as usize, sym::u8() as usize, sym::u8() as usize, sym::u8() as usize);
    if let (Ok(c), Ok(r), Ok(pc), Ok(pr)) = (
        TpcPwbColumn::try_from(c),
        TpcPwbRow::try_from(r),
        PwbPadColumn::try_from(pc),
        PwbPadRow::try_from(pr),
    ) {
        let p = TpcPadPosition::new(TpcPwbPosition::new(c, r), PwbPadPosition::new(pc, pr));
        let (ci, ri, pci, pri) = (sym::u8() as usize % 8, sym::u8() as usize % 8, sym::u8() as usize % 4, sym::u8() as usize % 72);
        let q = TpcPadPosition::new(
            TpcPwbPosition::new(TpcPwbColumn::try_from(ci).unwrap(), TpcPwbRow::try_from(ri).unwrap()),
            PwbPadPosition::new(PwbPadColumn::try_from(pci).unwrap(), PwbPadRow::try_from(pri).unwrap()),
        );
        let same_in = Some(c) == TpcPwbColumn::try_from(ci).ok()
            && Some(r) == TpcPwbRow::try_from(ri).ok()
            && Some(pc) == PwbPadColumn::try_from(pci).ok()
            && Some(pr) == PwbPadRow::try_from(pri).ok();
        check!((p == q) == same_in, "C08:index:pad-position-injective");
        witness!(p == q, "equal-positions");
    }
}

/// Run gating: before the first map the answer is an error, whatever the board.
pub fn gating_wire<const BK: usize>() {
    let run = sym::u32();
    sym::assume(run < 2941);
    let board = alpha_g_detector::alpha16::BoardId::try_from(ALPHA16_MACS[BK]).unwrap();
    let ch = Adc32ChannelId::try_from(sym::u8() % 32).unwrap();
    let r = TpcWirePosition::try_new(run, board, ch);
    witness!(true, "gating-reached");
    check!(r.is_err(), "C08:gating:wire-map-before-2941");
    std::mem::forget(r);
}
pub fn gating_pwb<const PK: usize>() {
    let run = sym::u32();
    sym::assume(run < 4418);
    let pboard = alpha_g_detector::padwing::BoardId::try_from(PADWING_DEVICE_IDS[PK]).unwrap();
    let r = TpcPwbPosition::try_new(run, pboard);
    witness!(true, "gating-reached");
    check!(r.is_err(), "C08:gating:pwb-map-before-4418");
    std::mem::forget(r);
}

/// `padwing::suppression_baseline` on `N` symbolic samples (C01).
pub fn pwb_baseline<const N: usize>() {
    let mut w = [0i16; N];
    let mut i = 0;
    while i < N {
        w[i] = sym::i16();
        i += 1;
    }
    let r = alpha_g_detector::padwing::suppression_baseline(sym::u32(), &w);
    witness!(r.is_ok() || N < 68, "reached");
    check!(r.is_ok() == (N >= 68), "C01:pwb-baseline:iff");
    if let Ok(v) = &r {
        let mut s: i64 = 0;
        let mut i = 4;
        while i < 68 {
            s += w[i] as i64;
            i += 1;
        }
        // documented: truncated mean of samples 4..68
        check!(*v == Some((s / 64) as i16), "C01:pwb-baseline:value");
    }
}

// ---- run-number gates of the position maps ----------------------------------
//
// The maps live in lazy_static HashMaps. With the hasher seed fixed (stub of
// `RandomState::new`, instances of this family only) and a CONCRETE key, the
// table construction and the lookup are concrete computations; the run number
// stays symbolic, so the `match run_number` arms are decided for all 2^32 runs.

/// Replacement for `std::hash::RandomState::new` (fixed SipHash keys).
pub fn fixed_random_state() -> std::hash::RandomState {
    // RandomState is { k0: u64, k1: u64 }
    unsafe { core::mem::transmute::<(u64, u64), std::hash::RandomState>((0x0123_4567_89ab_cdef, 0x0f1e_2d3c_4b5a_6978)) }
}

/// PadWing board `NAME` (two ASCII digits as a number, e.g. 44) for every run:
/// error before 4418; the 4418 map for 4418..10418 and for the simulation run
/// u32::MAX; the 10418 map from 10418 on. `P4418` / `P10418`: expected
/// column*8+row in that map, or -1 when the board is not installed in it.
pub fn run_gate_pwb<const NAME: usize, const P4418: i32, const P10418: i32>() {
    let name = [b'0' + (NAME / 10) as u8, b'0' + (NAME % 10) as u8];
    let board = alpha_g_detector::padwing::BoardId::try_from(core::str::from_utf8(&name).unwrap()).unwrap();
    let run = sym::u32();
    let r = TpcPwbPosition::try_new(run, board);
    let want = if run < 4418 {
        -1
    } else if run < 10418 || run == u32::MAX {
        P4418
    } else {
        P10418
    };
    witness!(run == 10417, "last-run-of-the-first-map");
    witness!(run == u32::MAX, "simulation-run");
    let got = match &r {
        Ok(p) => {
            let mut v = -1;
            let mut c = 0;
            while c < 8 {
                let mut w = 0;
                while w < 8 {
                    if Some(p.column()) == TpcPwbColumn::try_from(c).ok() && Some(p.row()) == TpcPwbRow::try_from(w).ok() {
                        v = (c * 8 + w) as i32;
                    }
                    w += 1;
                }
                c += 1;
            }
            v
        }
        Err(_) => -1,
    };
    check!(got == want, "C08:run-gate:pwb-position");
    std::mem::forget(r);
}

/// Alpha16 board `BK` (row of the documented table), channel `CH`: error before
/// run 2941, wire `WIRE` from then on and for the simulation run.
pub fn run_gate_wire<const BK: usize, const CH: u8, const WIRE: usize>() {
    let board = alpha_g_detector::alpha16::BoardId::try_from(ALPHA16_MACS[BK]).unwrap();
    let ch = Adc32ChannelId::try_from(CH).unwrap();
    let run = sym::u32();
    let r = TpcWirePosition::try_new(run, board, ch);
    witness!(run == 2941, "first-run-with-a-map");
    check!(r.is_ok() == (run >= 2941), "C08:run-gate:wire-iff");
    if let Ok(w) = &r {
        check!(usize::from(*w) == WIRE, "C08:run-gate:wire-position");
    }
    std::mem::forget(r);
}
