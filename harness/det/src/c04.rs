//! C04 - PWB packet reassembly is arrival-order independent and
//! loss/duplication safe (and the chunk-list part of C01).
//!
//! An instance fixes, per *arrival position*, the chunk id and the payload
//! length (both steer `sort` and the concatenated length, so they are concrete:
//! every ordering of a chunk set is its own instance); board (one of two real
//! boards), chip, end-of-message flag, sequence counters and payload bytes are
//! symbolic. The result of the real `TryFrom<Vec<Chunk>>` is compared with an
//! order-independent reference: the predicate `P` of the property statement
//! evaluated on the *set*, and the packet decoded directly from the payloads
//! concatenated in chunk-id order.

use crate::oracle::PADWING_DEVICE_IDS;
use crate::sym;
use alpha_g_detector::padwing::{
    Chunk, PwbPacket, PwbV2Packet, TryPwbPacketFromChunksError as E,
};

const MAXN: usize = 4;
const MAXLEN: usize = 64;

fn digit(code: usize, i: usize) -> usize {
    (code >> (3 * i)) & 7
}
fn len_of(code: usize, i: usize) -> usize {
    (code >> (6 * i)) & 63
}

/// `N` chunks arriving in the coded order. `IDS`: chunk id of arrival position
/// i is octal digit i. `LENS`: payload length (bytes, < 64) of arrival position i
/// is base-64 digit i.
pub fn reassembly<const N: usize, const IDS: usize, const LENS: usize>() {
    reassembly_impl::<N, IDS, LENS, true>()
}

/// Quick-tier form: same, but a well-formed set is only required to give `Ok`
/// or `BadPayload` (never a chunk-level error); the comparison with the direct
/// decoding of the concatenation is left to `reassembly` (thorough tier).
pub fn reassembly_lite<const N: usize, const IDS: usize, const LENS: usize>() {
    reassembly_impl::<N, IDS, LENS, false>()
}

fn reassembly_impl<const N: usize, const IDS: usize, const LENS: usize, const DIRECT: bool>() {
    // a 56-byte zero-channel packet skeleton: masks assigned zero (so that the
    // decoder's length rule can be met), every other byte symbolic
    let mut packet: [u8; 64] = sym::bytes::<64>();
    let mut i = 24;
    while i < 44 {
        packet[i] = 0;
        i += 1;
    }
    // payload of the chunk with id k, if the set is well formed, is the k-th
    // piece of `packet`; the pieces are laid out by the length of id 0..k-1
    let mut len_by_id = [usize::MAX; 8];
    let mut i = 0;
    while i < N {
        let id = digit(IDS, i);
        if len_by_id[id] == usize::MAX {
            len_by_id[id] = len_of(LENS, i);
        }
        i += 1;
    }
    let mut off_by_id = [0usize; 8];
    let mut acc = 0usize;
    let mut k = 0;
    while k < 8 {
        off_by_id[k] = acc;
        if len_by_id[k] != usize::MAX {
            acc += len_by_id[k];
        }
        k += 1;
    }
    let total = acc;
    // symbolic per-chunk fields
    let mut board = [0usize; MAXN];
    let mut chip = [0u8; MAXN];
    let mut flag = [0u8; MAXN];
    let mut chunks: Vec<Chunk> = Vec::with_capacity(N);
    let mut i = 0;
    while i < N {
        board[i] = if sym::bool() { 70 } else { 0 };
        chip[i] = sym::u8();
        sym::assume(chip[i] < 4);
        flag[i] = sym::u8();
        sym::assume(flag[i] < 2);
        let id = digit(IDS, i);
        let len = len_of(LENS, i);
        let mut payload = Vec::with_capacity(MAXLEN);
        let mut j = 0;
        while j < len {
            // duplicates / foreign pieces still read from `packet` (any bytes)
            let src = off_by_id[id] + j;
            payload.push(if src < 64 { packet[src] } else { 0 });
            j += 1;
        }
        let c = Chunk::verif_from_parts(
            PADWING_DEVICE_IDS[board[i]],
            sym::u32(),
            sym::u16(),
            chip[i],
            flag[i],
            id as u16,
            payload,
        );
        chunks.push(c.unwrap());
        i += 1;
    }
    // ---- reference predicate on the set ------------------------------------
    let mut same_board = true;
    let mut same_chip = true;
    let mut i = 1;
    while i < N {
        same_board &= board[i] == board[0];
        same_chip &= chip[i] == chip[0];
        i += 1;
    }
    let mut count = [0usize; 8];
    let mut i = 0;
    while i < N {
        count[digit(IDS, i)] += 1;
        i += 1;
    }
    let mut ids_ok = true;
    let mut k = 0;
    while k < 8 {
        ids_ok &= count[k] == if k < N { 1 } else { 0 };
        k += 1;
    }
    let mut flags_ok = true;
    let mut lens_ok = true;
    let mut i = 0;
    while i < N {
        let id = digit(IDS, i);
        flags_ok &= (flag[i] == 1) == (id == N - 1);
        if ids_ok && id < N - 1 {
            lens_ok &= len_of(LENS, i) == len_by_id[0];
        }
        i += 1;
    }
    let p = same_board && same_chip && ids_ok && flags_ok && lens_ok;

    // ---- the real function, once, on the arrival order ----------------------
    let r = PwbV2Packet::try_from(chunks);
    witness!(p && r.is_ok(), "well-formed-set-decoded");
    witness!(p && r.is_err(), "well-formed-set-bad-payload");
    let _ = total;
    witness!(!p, "faulty-set");
    if !p {
        check!(
            matches!(
                r,
                Err(E::DeviceIdMismatch { .. })
                    | Err(E::ChannelIdMismatch { .. })
                    | Err(E::MissingChunk { .. })
                    | Err(E::MissingEndOfMessageChunk)
                    | Err(E::MisplacedEndOfMessageChunk { .. })
                    | Err(E::PayloadLengthMismatch { .. })
            ),
            "C04:faulty-set-rejected-with-chunk-level-error"
        );
        // the specific documented rule fires when it is the only fault
        if !same_board && same_chip && ids_ok && flags_ok && lens_ok {
            check!(matches!(r, Err(E::DeviceIdMismatch { .. })), "C04:rule:board-mix");
        }
        if same_board && !same_chip && ids_ok && flags_ok && lens_ok {
            check!(matches!(r, Err(E::ChannelIdMismatch { .. })), "C04:rule:chip-mix");
        }
        if same_board && same_chip && !ids_ok {
            check!(matches!(r, Err(E::MissingChunk { .. })), "C04:rule:missing-or-duplicate-id");
        }
        if same_board && same_chip && ids_ok && !flags_ok {
            check!(
                matches!(r, Err(E::MissingEndOfMessageChunk) | Err(E::MisplacedEndOfMessageChunk { .. })),
                "C04:rule:end-of-message"
            );
        }
        if same_board && same_chip && ids_ok && flags_ok && !lens_ok {
            check!(matches!(r, Err(E::PayloadLengthMismatch { .. })), "C04:rule:non-final-size");
        }
    } else if !DIRECT {
        check!(
            matches!(r, Ok(_) | Err(E::BadPayload(_))),
            "C04:well-formed-set-not-rejected-at-chunk-level"
        );
    } else {
        // concatenation in chunk-id order = packet[..total]
        let direct = PwbV2Packet::try_from(&packet[..total]);
        match (&r, &direct) {
            (Ok(a), Ok(b)) => {
                check!(
                    a.after_id() == b.after_id()
                        && a.board_id() == b.board_id()
                        && a.trigger_delay() == b.trigger_delay()
                        && a.trigger_timestamp() == b.trigger_timestamp()
                        && a.last_sca_cell() == b.last_sca_cell()
                        && a.requested_samples() == b.requested_samples()
                        && a.channels_sent().len() == b.channels_sent().len()
                        && a.channels_over_threshold().len() == b.channels_over_threshold().len()
                        && a.event_counter() == b.event_counter()
                        && a.fifo_max_depth() == b.fifo_max_depth()
                        && a.event_descriptor_write_depth() == b.event_descriptor_write_depth()
                        && a.event_descriptor_read_depth() == b.event_descriptor_read_depth(),
                    "C04:equals-direct-decoding"
                );
            }
            (Err(E::BadPayload(_)), Err(_)) => {}
            _ => check!(false, "C04:result-class-differs-from-direct-decoding"),
        }
        std::mem::forget(direct);
    }
    std::mem::forget(r);
}

/// Totality of the enum wrapper on the same lists (C01), any outcome.
pub fn reassembly_total<const N: usize, const IDS: usize, const LENS: usize>() {
    let mut chunks: Vec<Chunk> = Vec::with_capacity(N);
    let mut i = 0;
    while i < N {
        let len = len_of(LENS, i);
        let mut payload = Vec::with_capacity(MAXLEN);
        let mut j = 0;
        while j < len {
            payload.push(sym::u8());
            j += 1;
        }
        let chip = sym::u8();
        sym::assume(chip < 4);
        let flag = sym::u8();
        sym::assume(flag < 2);
        let c = Chunk::verif_from_parts(
            PADWING_DEVICE_IDS[if sym::bool() { 70 } else { 0 }],
            sym::u32(),
            sym::u16(),
            chip,
            flag,
            digit(IDS, i) as u16,
            payload,
        );
        chunks.push(c.unwrap());
        i += 1;
    }
    let r = PwbPacket::try_from(chunks);
    witness!(r.is_err(), "rejected");
    std::mem::forget(r);
}

/// The empty list.
pub fn reassembly_empty() {
    let r = PwbV2Packet::try_from(Vec::<Chunk>::new());
    witness!(r.is_err(), "rejected");
    check!(matches!(r, Err(E::MissingChunk { .. })), "C04:empty-list");
    std::mem::forget(r);
}
