#!/usr/bin/env python3
"""Regenerates /verif/MANIFEST.json from the tables below (so it is always valid)."""
import json, os, sys
sys.path.insert(0, os.path.dirname(os.path.abspath(__file__)))

NOTE_TRUST = ("Trusted: Kani 0.68 MIR->goto translation of the dev-profile MIR of /repo's working tree, CBMC 6.11 + CaDiCaL; "
              "reference predicates in /verif/harness written from the property text; counterexamples are replayed natively "
              "(dev and release) before being reported. ")

CLAIMED = {
 "C06": dict(
    text="Bounded model checking of the real TrgV3Packet/TrgPacket::try_from: for slice lengths {0,1,4,76,79,80,81,84,96} and "
         "EVERY content (length 80 = all 2^640 packets) the solver shows accept <=> reference predicate, all 18 accessors = "
         "little-endian field at the documented offset, counter ordering, and byte-exact re-encoding. No content bound; the "
         "only bound is the list of lengths.",
    design_ref="DESIGN.md section 4 (C06)",
    note=NOTE_TRUST + "Outside the bound: other slice lengths (the decoder's only length test is `len != 80`).",
    technique="Kani/CBMC bounded model checking of the compiled decoder against an independent reference predicate (SAT, CaDiCaL)"),
}

NA = {
 "C09": "event build (MainEvent::try_from_banks: 18k-element Option<Vec> arrays, HashMap) plus float pipeline; no verdict from CBMC in 1800 s even on a single TRG bank (DESIGN.md 4, 8)",
 "C10": "observed only through MainEvent::try_from_banks (lazy_static HashMaps, 32x576 Option<Vec<f64>>): CBMC gives no verdict within reach (DESIGN.md 4, 8)",
 "C11": "needs try_from_banks and the float pipeline and quantifies over HashMap hash seeds (symbolic SipHash); out of reach of the bit-blasting back end",
 "C12": "statistical accuracy requirement over a distribution of simulated events through the full floating-point reconstruction; not a per-input assertion a solver can decide",
 "C13": "bit-identity through faer Cholesky and the greedy float deconvolution, 256-wire ring; only the integer wire<->pad-column rotation law is decidable and is checked under C08",
 "C14": "libm (sin, cos, atan2, hypot) has no usable model in Kani/CBMC (nondeterministic or unsupported) and Nelder-Mead minimisation is far beyond bounded unrolling",
 "C15": "clustering bookkeeping recomputes Hough bins with sin/cos, which Kani models as fresh nondeterministic values per call, so even the partition clause fails spuriously; sqrt distance does not terminate in the solver",
 "C16": "Kepler/Newton iteration with sin, cos, atan2, hypot: unsupported or nondeterministic in the solver",
 "C17": "float equivalence of the 60-line greedy deconvolution did not finish in 1400 s at 6 samples x 4 taps; wire clause needs Cholesky",
 "C19": "every clause is about main() of two binaries (file I/O, rayon, CSV); no callable unit to encode, Kani models neither threads nor the file system",
}
PENDING = {}

def main():
    props = [json.loads(l)["id"] for l in open("/verif/properties.jsonl")]
    checks = []
    for pid in props:
        if pid not in CLAIMED:
            continue
        c = CLAIMED[pid]
        checks.append({
            "property_id": pid,
            "quick_cmd": "./check %s --tier quick" % pid,
            "thorough_cmd": "./check %s --tier thorough" % pid,
            "evidence_file": "/verif/evidence/%s.json" % pid,
            "replay_cmd_template": "./check %s --replay {path}" % pid,
            "engine": "kani-cbmc",
            "level_claimed": {"category": "model_checking", "text": c["text"], "design_ref": c["design_ref"]},
            "level_note": c["note"],
            "technique": c["technique"],
        })
    na = []
    for pid in props:
        if pid in CLAIMED:
            continue
        reason = NA.get(pid) or PENDING.get(pid) or "check not built yet in this commit (claimed by DESIGN.md; see section 4)"
        na.append({"property_id": pid, "reason": reason})
    m = {
        "version": 1,
        "setup_cmd": "./setup.sh",
        "hooks": {
            "guard": "cargo feature `verif-hooks` (alpha_g_detector/verif-hooks, alpha_g_physics/verif-hooks)",
            "enable": "harness crates under /verif/harness depend on /repo/detector and /repo/physics by path with features = [\"verif-hooks\"]",
            "baseline_off_cmd": "cd /repo && cargo test --workspace --no-fail-fast --offline",
            "source_commits": open("/verif/hooks_commits.txt").read().split() if os.path.exists("/verif/hooks_commits.txt") else [],
            "add_only": True,
        },
        "engines": [
            {"name": "kani-cbmc", "path": "/verif/harness", "serves_properties": sorted(CLAIMED),
             "kind_free_text": "Kani 0.68 proof harnesses (out-of-tree crates with path dependencies on /repo) decided by CBMC 6.11/CaDiCaL; driver /verif/check + /verif/lib"},
        ],
        "checks": checks,
        "notes": "Solver-based checking of the real code. Exit codes: 0 held within the bounds, 1 reproduced violation, 2 inconclusive (no verdict / harness broken), never reported as pass or violation.",
        "not_applicable": na,
    }
    with open("/verif/MANIFEST.json", "w") as f:
        json.dump(m, f, indent=1)
    try:
        import jsonschema
        jsonschema.validate(m, json.load(open("/root/.vp/MANIFEST.schema.json")))
        print("MANIFEST valid:", len(checks), "checks,", len(na), "not applicable")
    except ImportError:
        print("written (jsonschema not available)")

if __name__ == "__main__":
    main()
