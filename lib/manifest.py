#!/usr/bin/env python3
"""Regenerates /verif/MANIFEST.json from the tables below (so it is always valid)."""
import json, os, sys
sys.path.insert(0, os.path.dirname(os.path.abspath(__file__)))

NOTE_TRUST = ("Trusted: Kani 0.68 MIR->goto translation of the dev-profile MIR of /repo's working tree, CBMC 6.11 + CaDiCaL; "
              "reference predicates in /verif/harness written from the property text; counterexamples are replayed natively "
              "(dev and release) before being reported. ")

def _c(text, ref, note, technique="Kani/CBMC bounded model checking of the compiled code against an independent reference predicate (SAT)"):
    return dict(text=text, design_ref=ref, note=NOTE_TRUST + note, technique=technique)

CLAIMED = {
 "C01": _c("Totality of every raw-data decoder, bank-name and id parser: for each listed input size class and EVERY content, CBMC shows "
           "that no panic, unwrap/expect failure, out-of-bounds index, arithmetic overflow (checked in every profile) or unwinding-"
           "assertion failure (non-termination within the bound) is reachable. Found and fixed D1 (requested_samples - 2 underflow).",
           "DESIGN.md 4 (C01), 9", "Bounds: lengths listed in the evidence; slices longer than the listed classes are outside.",
           "Kani/CBMC bounded model checking (panic/overflow/bounds/unwinding checks over symbolic inputs, SAT)"),
 "C02": _c("AdcV3Packet/AdcPacket::try_from on every content of lengths 0..=40 and 160..=171 (62..=67 samples): accept <=> the documented "
           "decision ladder evaluated in signed 64-bit arithmetic; every accessor = big-endian field; hence byte-exact re-encoding.",
           "DESIGN.md 4 (C02), 9", "Quick tier assigns samples 2..=61 to zero in the two long instances (thorough: all content). Waveforms > 67 samples outside."),
 "C03": _c("Chunk::try_from on 28/32-byte chunks (thorough: up to 64): accept <=> structure + both CRC-32C words over the documented byte "
           "ranges; field-wise round trip; every non-zero error pattern inside a word, every burst <= 32 bits at every offset and every "
           "weight<=3 error over word pairs/triples of an accepted chunk is rejected (pattern symbolic, position per instance).",
           "DESIGN.md 4 (C03), 9", "crc32c::crc32c is a bit-serial stand-in under cfg(kani), validated natively against the real crate. Longer chunks rest on cited CRC-32C properties."),
 "C04": _c("TryFrom<Vec<Chunk>> on every arrival order of 2-, 3- and 4-chunk sets and of the faulty multisets (duplicate/missing id, "
           "non-final chunk resized by >= 1 byte), with board, chip, end-of-message flags, counters and payload bytes symbolic: result = "
           "order-independent reference (documented predicate on the set; real slice decoder on the payloads concatenated by id).",
           "DESIGN.md 4 (C04), 9", "Chunk ids and payload lengths concrete per instance; chunks built with the hook Chunk::verif_from_parts. ~15 min per instance."),
 "C05": _c("PwbV2Packet::try_from with the size-steering fields assigned (masks: empty, every single bit, pairs, bit 79; requested_samples "
           "0..=3 or symbolic; length exact/+-2) and every other byte symbolic: accept <=> documented layout; channel lists = mask bits "
           "through a literal readout table; waveform_at for an arbitrary channel; all scalar accessors.",
           "DESIGN.md 4 (C05), 9", "More than 2 sent channels / 3 samples outside."),
 "C06": _c("TrgV3Packet/TrgPacket::try_from for slice lengths {0,1,4,76,79,80,81,84,96} and EVERY content (length 80 = all 2^640 packets): "
           "accept <=> reference predicate, 18 accessors = little-endian fields, counter ordering, byte-exact re-encoding.",
           "DESIGN.md 4 (C06)", "Outside: other slice lengths (the decoder's only length test is len != 80)."),
 "C07": _c("Chronobox FIFO: all 2^32 words through the real entry parser (classification and fields), scaler-block parser 0..=248 bytes, "
           "chronobox_fifo on every stream of 0..=4 bytes (thorough: up to 16, splits, streams with a scaler block): entries = longest "
           "prefix of accepted words in order, remainder exact.",
           "DESIGN.md 4 (C07), 9", "winnow without the boxed error cause under cfg(kani); each whole-function instance costs 4-15 min."),
 "C08": _c("Bank names (all ASCII strings <= 6 bytes, UTF-8 <= 4 bytes): accepted <=> documented pattern, decoded identity determines the "
           "name; all id/MAC/device-id/index conversions over full domains against frozen tables; wire<->pad-column arithmetic, rotation "
           "law and geometry for all wires.",
           "DESIGN.md 4 (C08), 9", "NOT decided: the run-dependent HashMap bijections (wire map, pad map, run 10418 switch, simulation = run 5000); see not-decided note in the evidence."),
 "C18": _c("Real DriftTables::at / DriftTable::at over the shipped tables (dumped bit-exactly from the crate at every run): per table "
           "windows of consecutive real knots (first 8, last 8, middle 48; complete tables best effort), t in [-1e-6, 5e-6] s: success "
           "<=> t within first/last knot, error kind, radius/correction bounds, knot reproduction to 1e-12; slice selection and z symmetry "
           "over all 92 real z bounds.",
           "DESIGN.md 4 (C18), 9", "Monotonicity and 8 ns continuity are two-lookup float queries: best effort, reported per run. Hook VerifDriftTables::from_static."),
 "C19": _c("ONLY the row kernel of alpha-g-vertices / alpha-g-trg-scalers: the `scan` closure of main() that turns per-event results into "
           "CSV rows, on every sequence of <= 3 (thorough 5) events: one row per event in order with its serial number, empty fields for "
           "undecodable events, unwrapped time = sum of 32-bit wrapped differences between consecutive decodable events, vertex / counter "
           "columns equal the library's values.",
           "DESIGN.md 9.3 (C19)", "NOT decided (most of the statement): file ordering and refusals, event filtering, rayon determinism, CSV "
           "serialisation, the final division by 62.5 MHz. The closure text is cut verbatim from main.rs at every run (one mechanical edit)."),
 "C20": _c("alpha-g-chronobox-timestamps: fn chronobox_time (soundness for every entry/marker combination; integer lemma tying the formula "
           "to the hardware model over 8 wraps; displacement/dropped/duplicated/missing marker) and the row loop of main() on every FIFO "
           "of <= 4 entries after the counter-0 marker (rows, order, channel/edge, which markers feed the time). Found and fixed D3.",
           "DESIGN.md 4 (C20), 9", "Source text of the kernel and the row loop is cut verbatim from main.rs at every run; parsing, buffering across banks/files, failure exits and CSV output are outside."),
}

NA = {
 "C09": "event build (MainEvent::try_from_banks: 18k-element Option<Vec> arrays, HashMap) plus float pipeline; no verdict from CBMC in 1800 s even on a single TRG bank (DESIGN.md 4, 8)",
 "C10": "observed only through MainEvent::try_from_banks (lazy_static HashMaps, 32x576 Option<Vec<f64>>): CBMC gives no verdict within reach (DESIGN.md 4, 8)",
 "C11": "needs try_from_banks and the float pipeline and quantifies over HashMap hash seeds (symbolic SipHash); out of reach of the bit-blasting back end",
 "C12": "statistical accuracy requirement over a distribution of simulated events through the full floating-point reconstruction; not a per-input assertion a solver can decide",
 "C13": "bit-identity through faer Cholesky and the greedy float deconvolution, 256-wire ring; only the integer wire<->pad-column rotation law is decidable and is checked under C08",
 "C14": "libm (sin, cos, atan2, hypot) has no usable model in Kani/CBMC (nondeterministic or unsupported) and Nelder-Mead minimisation is far beyond bounded unrolling",
 "C15": "clustering bookkeeping recomputes Hough bins with sin/cos, which Kani models as fresh nondeterministic values per call, so even the partition clause fails spuriously; sqrt distance does not terminate in the solver",
 "C16": "Kepler/Newton iteration with sin, cos, atan2, hypot: unsupported or nondeterministic in the solver",
 "C17": "float equivalence of the 60-line greedy deconvolution did not finish in 1400 s at 6 samples x 4 taps; wire clause needs Cholesky",
}
PENDING = {}

def main():
    props = [json.loads(l)["id"] for l in open("/verif/properties.jsonl")]
    checks = []
    for pid in props:
        if pid not in CLAIMED:
            continue
        c = CLAIMED[pid]
        checks.append({
            "property_id": pid,
            "quick_cmd": "./check %s --tier quick" % pid,
            "thorough_cmd": "./check %s --tier thorough" % pid,
            "evidence_file": "/verif/evidence/%s.json" % pid,
            "replay_cmd_template": "./check %s --replay {path}" % pid,
            "engine": "kani-cbmc",
            "level_claimed": {"category": "model_checking", "text": c["text"], "design_ref": c["design_ref"]},
            "level_note": c["note"],
            "technique": c["technique"],
        })
    na = []
    for pid in props:
        if pid in CLAIMED:
            continue
        reason = NA.get(pid) or PENDING.get(pid) or "check not built yet in this commit (claimed by DESIGN.md; see section 4)"
        na.append({"property_id": pid, "reason": reason})
    m = {
        "version": 1,
        "setup_cmd": "./setup.sh",
        "hooks": {
            "guard": "cargo feature `verif-hooks` (alpha_g_detector/verif-hooks, alpha_g_physics/verif-hooks)",
            "enable": "harness crates under /verif/harness depend on /repo/detector and /repo/physics by path with features = [\"verif-hooks\"]",
            "baseline_off_cmd": "cd /repo && cargo test --workspace --no-fail-fast --offline",
            "source_commits": open("/verif/hooks_commits.txt").read().split() if os.path.exists("/verif/hooks_commits.txt") else [],
            "add_only": True,
        },
        "engines": [
            {"name": "kani-cbmc", "path": "/verif/harness", "serves_properties": sorted(CLAIMED),
             "kind_free_text": "Kani 0.68 proof harnesses (out-of-tree crates with path dependencies on /repo) decided by CBMC 6.11/CaDiCaL; driver /verif/check + /verif/lib"},
        ],
        "checks": checks,
        "notes": "Solver-based checking of the real code. Exit codes: 0 held within the bounds, 1 reproduced violation, 2 inconclusive (no verdict / harness broken), never reported as pass or violation.",
        "not_applicable": na,
    }
    with open("/verif/MANIFEST.json", "w") as f:
        json.dump(m, f, indent=1)
    try:
        import jsonschema
        jsonschema.validate(m, json.load(open("/root/.vp/MANIFEST.schema.json")))
        print("MANIFEST valid:", len(checks), "checks,", len(na), "not applicable")
    except ImportError:
        print("written (jsonschema not available)")

if __name__ == "__main__":
    main()
