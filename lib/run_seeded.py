#!/usr/bin/env python3
"""Run the registered quick check of a property against each seeded change of /verif/seeded.

usage: run_seeded.py [ID ...]      (default: all), results -> /verif/seeded/results.json
Applies patch.diff to /repo (git apply), runs `./check <prop> --tier quick` with VERIF_STOP_ON_VIOLATION=1 (stop scheduling
after the first reproduced violation - a time saver used ONLY here), records exit code / VIOLATION lines, and always
restores /repo with `git checkout -- .`.
"""
import json, os, subprocess, sys, time
ROOT = "/verif"
def sh(cmd, **kw):
    return subprocess.run(cmd, shell=True, capture_output=True, text=True, **kw)
def main():
    ids = sys.argv[1:] or sorted(os.listdir(os.path.join(ROOT, "seeded")))
    res_path = os.path.join(ROOT, "seeded", "results.json")
    results = json.load(open(res_path)) if os.path.exists(res_path) else {}
    for sid in ids:
        d = os.path.join(ROOT, "seeded", sid)
        if not os.path.isdir(d):
            continue
        meta = json.load(open(os.path.join(d, "meta.json")))
        prop = meta["breaks_property"]
        assert sh("git -C /repo status --porcelain").stdout.strip() == "", "/repo not clean"
        r = sh("git -C /repo apply %s/patch.diff" % d)
        if r.returncode != 0:
            results[sid] = {"error": "patch does not apply: " + r.stderr[-200:]}
            continue
        t0 = time.time()
        try:
            env = dict(os.environ, VERIF_STOP_ON_VIOLATION="1")
            r = subprocess.run(["python3", "-u", "./check", prop, "--tier", "quick"], cwd=ROOT, capture_output=True, text=True, env=env,
                               timeout=3 * 3600)
            out = r.stdout
            vio = [l for l in out.splitlines() if l.startswith("VIOLATION") or l.startswith("  instance")]
            results[sid] = {"property": prop, "exit": r.returncode, "wall_s": round(time.time() - t0), "violation_lines": vio[:6],
                            "summary": [l for l in out.splitlines() if "tier=quick" in l][-1:],
                            "inconclusive": [l for l in out.splitlines() if l.startswith("INCONCLUSIVE")][:4]}
        finally:
            sh("git -C /repo checkout -- .")
        json.dump(results, open(res_path, "w"), indent=1)
        print(sid, results[sid].get("exit"), results[sid].get("wall_s"), (results[sid].get("violation_lines") or ["-"])[0][:150], flush=True)
if __name__ == "__main__":
    main()
