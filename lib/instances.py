"""Instance tables: which harness instances exist, their bounds and costs.

Everything a run claims is derived from these tables; they are the stated
bounds. `META[prop]` carries the prose that goes into the evidence file.
"""
from vlib import Inst

INSTS: list[Inst] = []
META: dict[str, dict] = {}


def add(**kw):
    INSTS.append(Inst(**kw))


# ------------------------------------------------------------------ C06 ----
TRG_FUNCS = ["alpha_g_detector::trigger::<TrgV3Packet as TryFrom<&[u8]>>::try_from",
             "alpha_g_detector::trigger::<TrgPacket as TryFrom<&[u8]>>::try_from",
             "TrgV3Packet/TrgPacket accessors (18 each)"]
add(name="c06_trg_iff_80", prop="C06", crate="det", expr="crate::c06::trg_iff::<80>", unwind=82,
    cap_s=600, mem_gb=6, witnesses=["accepted", "rejected-80"], est_s=40, family="trg_iff",
    funcs=TRG_FUNCS, params={"len": 80, "content": "all 2^640"})
for L in (0, 1, 4, 76, 79, 81, 84, 96):
    add(name="c06_trg_iff_%d" % L, prop="C06", crate="det", expr="crate::c06::trg_iff::<%d>" % L, unwind=82,
        cap_s=300, mem_gb=4, witnesses=["rejected-other-length"], est_s=10, family="trg_iff",
        funcs=TRG_FUNCS, params={"len": L, "content": "all"})
META["C06"] = {
    "bounds": "slice lengths {0,1,4,76,79,80,81,84,96}; every content of each length (length 80: all 2^640 packets); "
              "loops: default unwind 82 (re-encoding compare 80, memcmp 4)",
    "outside": "slice lengths other than the nine listed (the decoder's only length test is len != 80)",
    "assumptions": ["Kani 0.68 MIR->goto translation and CBMC 6.11 are sound", "dev-profile MIR of /repo's working tree",
                    "reference predicate c06::spec written from the property statement"],
}


# ------------------------------------------------------------------ C02 ----
ADC_FUNCS = ["alpha_g_detector::alpha16::<AdcV3Packet as TryFrom<&[u8]>>::try_from",
             "alpha_g_detector::alpha16::<AdcPacket as TryFrom<&[u8]>>::try_from",
             "alpha16::BoardId::try_from([u8;6])", "ModuleId/Adc16ChannelId/Adc32ChannelId::try_from(u8)",
             "AdcV3Packet/AdcPacket accessors"]
ADC_SHORT = list(range(0, 41))
ADC_LONG_N = [62, 63, 64, 65, 66, 67]
for L in ADC_SHORT:
    wit = ["rejected"] if L != 16 else ["accepted-16", "rejected"]
    add(name="c02_adc_iff_%d" % L, prop="C02", crate="det", expr="crate::c02::adc_iff::<%d>" % L, unwind=36,
        cap_s=600, mem_gb=4, witnesses=wit, est_s=10, family="adc_iff", funcs=ADC_FUNCS,
        sched="always" if L in (0, 15, 16, 17, 35, 36, 37) else "pool",
        params={"len": L, "content": "all"})
for n in ADC_LONG_N:
    for odd in (0, 1):
        L = 36 + 2 * n + odd
        wit = ["rejected"]
        if n >= 64 and not odd:
            # suppression-on needs n > last_index >= 64
            wit = ["accepted-suppression-off", "rejected"] + (["accepted-suppression-on"] if n >= 65 else [])
        add(name="c02_adc_iff_%d" % L, prop="C02", crate="det", expr="crate::c02::adc_iff::<%d>" % L, unwind=n + 4,
            cap_s=1800, mem_gb=5, witnesses=wit, est_s=200 if not odd else 30, family="adc_iff", funcs=ADC_FUNCS,
            sched="always" if (n == 64 and odd) else ("thorough" if not odd else "pool"),
            params={"len": L, "samples": n, "content": "all"})
for n in (64, 65):
    L = 36 + 2 * n
    add(name="c02_adc_iff_sparse_%d" % L, prop="C02", crate="det", expr="crate::c02::adc_iff_sparse::<%d>" % L,
        unwind=n + 4, cap_s=1800, mem_gb=5, est_s=100, family="adc_iff_sparse", funcs=ADC_FUNCS, sched="always",
        witnesses=["accepted-suppression-off", "rejected"] + (["accepted-suppression-on"] if n >= 65 else []),
        params={"len": L, "samples": n, "content": "samples 2..=61 assigned 0, everything else free"})
# requested_samples assigned around 0,1,2 and n+1,n+2,n+3 (decision-table cells), length 164 (n = 64) and 166 (n = 65)
for L, n in ((164, 64), (166, 65)):
    for RS in (0, 1, 2, n + 1, n + 2, n + 3, 65535):
        wit = ["rejected"]
        if RS == n + 2:
            wit.append("accepted-suppression-off")
        if RS >= n + 2 and n >= 65:
            wit.append("accepted-suppression-on")
        add(name="c02_adc_iff_rs_%d_%d" % (L, RS), prop="C02", crate="det",
            expr="crate::c02::adc_iff_rs::<%d, %d>" % (L, RS), unwind=n + 4, cap_s=1800, mem_gb=5,
            witnesses=wit, est_s=120, family="adc_iff_rs", funcs=ADC_FUNCS,
            sched="always" if (L == 164 and RS in (0, 1, n + 2)) else "thorough",
            params={"len": L, "samples": n, "requested_samples": RS})
META["C02"] = {
    "pool_k": 4,
    "bounds": "slice lengths 0..=40 and 36+2n, 37+2n for n in 62..=67 (160..=171), every content; plus lengths 164/166 with "
              "requested_samples assigned to {0,1,2,n+1,n+2,n+3,65535}; quick = boundary instances + 4 seeded from the pool, "
              "thorough = all. Loops: default unwind n+4 (64-sample baseline sum, n-sample collect, 8-board MAC search, memcmp 6)",
    "outside": "waveforms longer than 67 samples (all further length dependence is the comparison of n with keep_last and "
               "requested_samples, exercised here on both sides of every threshold)",
    "assumptions": ["reference predicate c02::spec evaluates the documented ladder in i64", "8 documented Alpha16 MACs frozen in harness/det/src/oracle.rs"],
}


# ------------------------------------------------------------------ C03 ----
CHUNK_FUNCS = ["alpha_g_detector::padwing::<Chunk as TryFrom<&[u8]>>::try_from", "padwing::BoardId::try_from(u32)",
               "padwing::AfterId::try_from(u8)", "crc32c::crc32c (bit-serial stand-in under cfg(kani))", "Chunk accessors"]
# loops that walk the 71-entry board table need 73; everything else is bounded by 16 header bytes / 8 bits
BOARD_LOOPS = [("BoardId", 73), ("known_device", 73)]
def valid_k(L):
    return range(L - 27, L - 23)
for L in (28, 32):
    for K in list(valid_k(L)) + [0, L - 28, L - 23, 65535]:
        if K < 0:
            continue
        ok = K in valid_k(L)
        name = "c03_chunk_iff_%d_%d" % (L, K)
        if any(i.name == name for i in INSTS):
            continue
        add(name=name, prop="C03", crate="det", expr="crate::c03::chunk_iff::<%d, %d>" % (L, K),
            unwind=18, unwindset=BOARD_LOOPS, cap_s=1800, mem_gb=5, est_s=120, family="chunk_iff", funcs=CHUNK_FUNCS,
            witnesses=["accepted", "rejected"] if ok else ["rejected"],
            sched="always" if (L, K) in ((28, 1), (28, 4), (32, 5), (32, 8), (28, 5), (28, 0)) else "pool",
            params={"len": L, "chunk_length": K, "content": "all other bytes free"})

for L in (36, 40, 48, 64):
    for K in (L - 27, L - 24, L - 23):
        ok = K in valid_k(L)
        add(name="c03_chunk_iff_%d_%d" % (L, K), prop="C03", crate="det", expr="crate::c03::chunk_iff::<%d, %d>" % (L, K),
            unwind=max(18, L - 20), unwindset=BOARD_LOOPS, cap_s=2400, mem_gb=6, est_s=200, family="chunk_iff",
            funcs=CHUNK_FUNCS, witnesses=["accepted", "rejected"] if ok else ["rejected"], sched="thorough",
            params={"len": L, "chunk_length": K, "content": "all other bytes free"})
import itertools
FAULT_W = ["base-accepted-and-error-injected"]
for (L, K) in ((28, 1), (28, 4), (32, 5), (32, 8)):
    NW = L // 4
    D = {(28, 1): 0, (28, 4): 35, (32, 5): 70, (32, 8): 68}[(L, K)]
    quick_shape = (L, K) == (28, 1)
    for W in range(NW):
        add(name="c03_fault_word_%d_%d_w%d" % (L, K, W), prop="C03", crate="det",
            expr="crate::c03::fault_word::<%d, %d, %d, %d>" % (L, K, D, W), unwind=18, unwindset=BOARD_LOOPS,
            cap_s=1500, mem_gb=4, est_s=80, family="fault_word", funcs=CHUNK_FUNCS, witnesses=FAULT_W,
            sched="always" if quick_shape else "pool",
            params={"len": L, "chunk_length": K, "board": D, "word": W, "error": "any non-zero 32-bit pattern in the word"})
    for OFF in range(8 * L):
        add(name="c03_fault_burst_%d_%d_o%d" % (L, K, OFF), prop="C03", crate="det",
            expr="crate::c03::fault_burst::<%d, %d, %d, %d>" % (L, K, D, OFF), unwind=18, unwindset=BOARD_LOOPS,
            cap_s=300, mem_gb=4, est_s=80, family="fault_burst", funcs=CHUNK_FUNCS, witnesses=FAULT_W, klass="best",
            sched="pool" if (L, K) in ((28, 1), (32, 8)) else "thorough",
            params={"len": L, "chunk_length": K, "board": D, "first_flipped_bit": OFF, "error": "any burst of <= 32 bits starting there"})
    if (L, K) in ((28, 1), (32, 8)):
        for (a, b) in itertools.combinations(range(NW), 2):
            add(name="c03_fault_w2_%d_%d_w%d_%d" % (L, K, a, b), prop="C03", crate="det",
                expr="crate::c03::fault_w2::<%d, %d, %d, %d, %d>" % (L, K, D, a, b), unwind=18, unwindset=BOARD_LOOPS,
                cap_s=300, mem_gb=4, est_s=80, family="fault_w2", funcs=CHUNK_FUNCS, witnesses=FAULT_W, sched="pool", klass="best",
                params={"len": L, "chunk_length": K, "board": D, "words": [a, b], "error": "weight <= 3, both words hit"})
        for (a, b, c) in itertools.combinations(range(NW), 3):
            add(name="c03_fault_w3_%d_%d_w%d_%d_%d" % (L, K, a, b, c), prop="C03", crate="det",
                expr="crate::c03::fault_w3::<%d, %d, %d, %d, %d, %d>" % (L, K, D, a, b, c), unwind=18, unwindset=BOARD_LOOPS,
                cap_s=300, mem_gb=4, est_s=80, family="fault_w3", funcs=CHUNK_FUNCS, witnesses=FAULT_W, sched="pool", klass="best",
                params={"len": L, "chunk_length": K, "board": D, "words": [a, b, c], "error": "one bit in each word"})
    add(name="c03_fault_bit_%d_%d" % (L, K), prop="C03", crate="det", expr="crate::c03::fault_bit::<%d, %d, %d>" % (L, K, D),
        unwind=18, unwindset=BOARD_LOOPS, cap_s=3600, mem_gb=8, est_s=1300, family="fault_bit", funcs=CHUNK_FUNCS,
        witnesses=FAULT_W, sched="thorough", klass="best",
        params={"len": L, "chunk_length": K, "board": D, "error": "one bit at a symbolic position"})
    add(name="c03_crc_accessors_%d_%d" % (L, K), prop="C03", crate="det", expr="crate::c03::chunk_crc_accessors::<%d, %d>" % (L, K),
        unwind=18, unwindset=BOARD_LOOPS, cap_s=2400, mem_gb=12, est_s=600, family="chunk_crc_accessors", funcs=CHUNK_FUNCS,
        witnesses=["accepted"], sched="thorough", klass="best",
        params={"len": L, "chunk_length": K, "clause": "header_crc32c()/payload_crc32c() reproduce the stored words"})
META["C03"] = {
    "pool_k": 6,
    "budget_s": {"thorough": 4 * 3600},
    "bounds": "chunks of 28 and 32 bytes (payload 1..=8) with every declared length in/around the valid window: accept <=> "
              "reference predicate incl. both CRC-32C words over bytes 0..16 and 20..len-4, field-wise round trip; thorough adds "
              "36/40/48/64-byte chunks. Fault detection on accepted 28/32-byte chunks (board fixed per shape, all other bytes "
              "symbolic): every non-zero pattern inside each aligned word (=> all 1-3 bit flips inside a word), every burst of "
              "<= 32 bits starting at each bit offset, every weight<=3 error over each pair/triple of words. "
              "Loops: default 18, 71-entry board table loops 73.",
    "outside": "chunks longer than 64 bytes for acceptance and longer than 32 bytes for fault detection (there the claim rests on "
               "the acceptance clause plus the published Hamming-distance/burst properties of CRC-32C, cited not proved)",
    "assumptions": ["crc32c::crc32c computes CRC-32C (bit-serial stand-in under cfg(kani), validated natively against the real crate in setup)",
                    "fault harnesses assume the unflipped chunk is accepted and fix its device id to one documented board per shape"],
}


# ------------------------------------------------------------------ C05 ----
PWB_FUNCS = ["alpha_g_detector::padwing::<PwbV2Packet as TryFrom<&[u8]>>::try_from", "<PwbPacket as TryFrom<&[u8]>>::try_from",
             "padwing::BoardId::try_from([u8;6])", "padwing::ChannelId::try_from(u16)", "AfterId::try_from(char)",
             "Compression/Trigger::try_from(u8)", "PwbV2Packet accessors incl. waveform_at"]
def pwb_loops(nchan):
    # the two mask scans `while num != 0 { .. leading_zeros .. }` are not constant-folded by CBMC: give them exactly
    # popcount+2 iterations (unwinding assertions prove that is enough) instead of the default
    return [("BoardId", 73), ("known_mac", 73), ("c05::spec", 81), ("list_matches_mask", 81), ("pwb_iff_body", 81), ("check_waveform", 81),
            ("c05::shape", 22), ("memcmp", 8), ("ChunksExact", 40), ("rfold", nchan + 2), ("IntoIter", nchan + 2),
            ("TryFromRShE8try_from.", nchan + 2)]
PWB_LOOPS = pwb_loops(2)
def bpc(rs):
    return 4 + 2 * rs + (2 if rs % 2 else 0)
def pwb(name, L, s0, s1, t, rs, sched, wit, est=100, nochan=False):
    if nochan:
        expr = "crate::c05::pwb_iff_nochan::<%d, %d>" % (L, t)
    else:
        expr = "crate::c05::pwb_iff::<%d, %d, %d, %d, %d>" % (L, s0, s1, t, rs)
    nchan = (1 if s0 >= 0 else 0) + (1 if s1 >= 0 else 0)
    add(name=name, prop="C05", crate="det", expr=expr, unwind=16, unwindset=pwb_loops(max(nchan, 1)), cap_s=2400, mem_gb=6, est_s=est,
        family="pwb_iff", funcs=PWB_FUNCS, witnesses=wit, sched=sched,
        params={"len": L, "sent_bits": [x for x in (s0, s1) if x >= 0], "over_threshold": {-1: "none", -2: "same as sent"}.get(t, t),
                "requested_samples": "symbolic" if nochan else rs})
AR = ["accepted", "rejected"]
R = ["rejected"]
# no channel: requested_samples/last_sca_cell symbolic
pwb("c05_nochan_56", 56, -1, -1, -1, 0, "always", AR, nochan=True)
pwb("c05_nochan_56_t5", 56, -1, -1, 5, 0, "pool", AR, nochan=True)
pwb("c05_nochan_56_t78", 56, -1, -1, 78, 0, "always", AR, nochan=True)
pwb("c05_nochan_56_t79", 56, -1, -1, 79, 0, "always", R, nochan=True)
pwb("c05_nochan_58", 58, -1, -1, -1, 0, "always", R, nochan=True)
pwb("c05_nochan_60", 60, -1, -1, -1, 0, "pool", R, nochan=True)
# one channel
for s0 in range(79):
    for rs in (0, 1, 2, 3):
        L = 56 + bpc(rs)
        boundary = s0 in (0, 2, 3, 15, 16, 28, 29, 53, 54, 66, 67, 78)
        pwb("c05_one_s%d_rs%d" % (s0, rs), L, s0, -1, -2 if (s0 + rs) % 2 else -1, rs,
            "always" if (s0, rs) in ((0, 2), (16, 1), (78, 1)) else ("pool" if (boundary and rs < 3) or rs in (1, 2) else "thorough"), AR)
# bit 79
pwb("c05_one_s79_rs2", 56 + bpc(2), 79, -1, -1, 2, "always", R)
pwb("c05_one_s10_t79_rs2", 56 + bpc(2), 10, -1, 79, 2, "pool", R)
# missing / left-over bytes
pwb("c05_one_s10_rs2_short", 56 + bpc(2) - 2, 10, -1, -1, 2, "always", R)
pwb("c05_one_s10_rs2_long", 56 + bpc(2) + 2, 10, -1, -1, 2, "pool", R)
pwb("c05_one_s10_rs512", 56 + bpc(2), 10, -1, -1, 512, "pool", R)
# pairs
for (a, b) in ((0, 78), (15, 16), (28, 29), (53, 54), (66, 67), (2, 3), (16, 29), (40, 41)):
    for rs in (1, 2):
        pwb("c05_two_s%d_%d_rs%d" % (a, b, rs), 56 + 2 * bpc(rs), a, b, -2 if rs == 1 else a, rs,
            "thorough", AR, est=1500)
pwb("c05_two_s0_78_rs3", 56 + 2 * bpc(3), 0, 78, -1, 3, "thorough", AR, est=1800)
for i in INSTS:
    if i.name.startswith("c05_two_"):
        # measured: symbolic execution alone ~12 min, solver needs > 18 GB: best effort, one or two at a time
        # measured: the solver's array post-processing runs out of memory (40 GB) once waveform_at is checked on a
        # two-channel packet: best effort, thorough only
        i.klass, i.cap_s, i.mem_gb, i.solver = "best", 3000, 14, "minisat"
    if i.name.startswith("c05_one_") and i.name.endswith("_rs3"):
        i.klass = "best"  # same symptom for 3 samples per channel
META["C05"] = {
    "pool_k": 8,
    "budget_s": {"thorough": 3 * 3600},
    "bounds": "sent mask: empty, each of the 79 single bits, 8 pairs, bit 79; over-threshold mask: empty / same / one bit / bit 79; "
              "requested_samples 0..=3 (and fully symbolic together with last_sca_cell in the zero-channel instances, 512 in one); "
              "slice length exact and +-2; every other byte (version, chip, compression, trigger, MAC, delay, timestamp, reserved, "
              "counters, block headers, samples, padding, end marker) symbolic. Loops: default 16, 71-board loops 73, 79-bit scans 81.",
    "outside": "more than 2 sent channels, more than 3 samples per channel (the index arithmetic samples_per_channel*index+2 is "
               "exercised for index 0 and 1 only)",
    "assumptions": ["71 documented PadWing MACs and the readout-index table frozen in harness/det/src (oracle.rs, c05.rs)"],
}


# ------------------------------------------------------------------ C01 ----
# totality: no functional oracle, Kani's own checks (panic/unwrap/index/overflow/unwinding assertion)
def c01(name, expr, unwind, sched, est=15, unwindset=None, funcs=None, mem=4, cap=900, params=None, crate="det", wit=("rejected",)):
    add(name=name, prop="C01", crate=crate, expr=expr, unwind=unwind, unwindset=unwindset or [], cap_s=cap, mem_gb=mem,
        est_s=est, family=name.split("_")[1], funcs=funcs or [], witnesses=list(wit), sched=sched, params=params or {})
for L in list(range(0, 41)) + list(range(160, 172)):
    n = max(0, (L - 36) // 2)
    c01("c01_adc_total_%d" % L, "crate::c02::adc_total::<%d>" % L, max(12, n + 4),
        "always" if L in (15, 16, 35, 36, 164, 165) else ("pool" if L < 100 else "thorough"),
        est=10 if L < 100 else 90, funcs=ADC_FUNCS[:2], params={"len": L}, mem=4 if L < 100 else 6, cap=900 if L < 100 else 1800)
for L in range(0, 97):
    c01("c01_trg_total_%d" % L, "crate::c06::trg_total::<%d>" % L, 8, "always" if L in (0, 79, 80, 81) else "pool",
        est=8, funcs=TRG_FUNCS[:2], params={"len": L})
for L in range(0, 41):
    c01("c01_chunk_total_free_%d" % L, "crate::c03::chunk_total_free::<%d>" % L, 24, "always" if L in (24, 27, 28, 32) else "pool",
        est=40 if L >= 24 and L % 4 == 0 else 8, unwindset=BOARD_LOOPS, funcs=CHUNK_FUNCS[:1], params={"len": L, "chunk_length": "symbolic"})
for L in (28, 32, 36):
    for K in sorted({0, L - 28, L - 27, L - 24, L - 23, 65535}):
        if K >= 0:
            c01("c01_chunk_total_%d_%d" % (L, K), "crate::c03::chunk_total::<%d, %d>" % (L, K), 24, "pool", est=40,
                unwindset=BOARD_LOOPS, funcs=CHUNK_FUNCS[:1], params={"len": L, "chunk_length": K})
for L in range(0, 56):
    c01("c01_pwb_total_free_%d" % L, "crate::c05::pwb_total_free::<%d>" % L, 8, "always" if L in (0, 55) else "pool",
        est=8, funcs=PWB_FUNCS[:1], params={"len": L})
PWB_TOTAL_SHAPES = [(56, -1, -1, -1, 0), (56, -1, -1, 78, 511), (56, -1, -1, 79, 512), (58, -1, -1, -1, 65535),
                    (64, 0, -1, -2, 2), (64, 78, -1, -1, 2), (64, 79, -1, -1, 2), (62, 10, -1, -1, 1), (66, 10, -1, 79, 3),
                    (60, 15, -1, -2, 0), (62, 10, -1, -1, 2), (66, 10, -1, -1, 2), (64, 10, -1, -1, 512), (64, 10, -1, -1, 65535)]
for (L, s0, s1, t, rs) in PWB_TOTAL_SHAPES:
    nm = "c01_pwb_total_%d_%s_%s_%d" % (L, ("s%d" % s0) if s0 >= 0 else "none", ("t%d" % t) if t >= 0 else ("tsame" if t == -2 else "tnone"), rs)
    c01(nm, "crate::c05::pwb_total::<%d, %d, %d, %d, %d>" % (L, s0, s1, t, rs), 16,
        "always" if (L, s0, rs) in ((56, -1, 0), (64, 0, 2), (64, 79, 2)) else "pool", est=60,
        unwindset=pwb_loops(2), funcs=PWB_FUNCS[:2],
        params={"len": L, "sent": s0, "over_threshold": t, "requested_samples": rs}, mem=5, cap=1500)


# ------------------------------------------------------------------ C08 (detector part) ----
NAME_FUNCS = ["midas::{Adc16,Adc32,Alpha16,Padwing,Trigger,Trb3,McVertex,Seq2,Chronobox,MainEvent}BankName::try_from(&str)",
              "alpha16::BoardId::try_from(&str)", "padwing::BoardId::try_from(&str)", "chronobox::BoardId::try_from(&str)"]
NAME_LOOPS = [("BoardId", 73), ("in_names", 73), ("memcmp", 8)]
PARSERS = {0: "adc16", 1: "adc32", 2: "alpha16", 3: "padwing", 4: "fixed", 5: "main"}
for P, pn in PARSERS.items():
    for N in range(0, 7):
        wit = []
        if N == 4:
            wit = ["accepted"] + (["rejected"] if P != 4 else [])
        for also_c01 in (False,):
            add(name="c08_name_ascii_%s_%d" % (pn, N), prop="C08", also=["C01"], crate="det",
                expr="crate::c08::name_ascii::<%d, %d>" % (N, P), unwind=10, unwindset=NAME_LOOPS, cap_s=1500, mem_gb=5,
                est_s=60, family="name_ascii", funcs=NAME_FUNCS, witnesses=wit,
                sched="always" if N == 4 else ("pool" if N in (3, 5) else "thorough"),
                params={"parser": pn, "bytes": N, "alphabet": "all ASCII"})
    for N in range(1, 5):
        add(name="c08_name_utf8_%s_%d" % (pn, N), prop="C08", also=["C01"], crate="det",
            expr="crate::c08::name_utf8::<%d, %d>" % (N, P), unwind=10, unwindset=NAME_LOOPS, cap_s=2400, mem_gb=6,
            est_s=120, family="name_utf8", funcs=NAME_FUNCS, witnesses=["non-ascii-string-parsed"] if N >= 2 else [],
            sched=("always" if pn in ("adc16", "padwing") else "pool") if N == 4 else "thorough", klass="core",
            params={"parser": pn, "bytes": N, "alphabet": "all valid UTF-8"})
for N in (0, 1, 2, 3, 4, 5):
    add(name="c08_board_names_%d" % N, prop="C08", also=["C01"], crate="det", expr="crate::c08::board_names::<%d>" % N,
        unwind=10, unwindset=NAME_LOOPS, cap_s=1500, mem_gb=5, est_s=60, family="board_names", funcs=NAME_FUNCS[1:],
        witnesses=["alpha16-accepted"] if N == 2 else [], sched="always" if N in (2, 4) else "pool",
        params={"bytes": N, "alphabet": "all valid UTF-8"})
ID_FUNCS = ["TryFrom<u8|u16|u32|char|[u8;6]|usize> of every id / position type in alpha16, padwing, chronobox, midas, aw_map, padwing::map",
            "TpcPadPosition::new", "TpcWirePosition::try_new / TpcPwbPosition::try_new (run gating arms)"]
add(name="c08_ids_small", prop="C08", also=["C01"], crate="det", expr="crate::c08::ids_small", unwind=6, cap_s=900, mem_gb=4,
    est_s=30, family="ids", funcs=ID_FUNCS, witnesses=["reached"], params={"domain": "all u8 / u16 / char values"})
add(name="c08_ids_mac", prop="C08", also=["C01"], crate="det", expr="crate::c08::ids_mac", unwind=73, cap_s=1500, mem_gb=6,
    est_s=120, family="ids", funcs=ID_FUNCS, witnesses=["alpha16-mac-accepted", "padwing-mac-accepted"],
    params={"domain": "all 2^48 MACs, all 2^32 device ids"})
add(name="c08_indices", prop="C08", also=["C01"], crate="det", expr="crate::c08::indices", unwind=6,
    cap_s=900, mem_gb=5, est_s=60, family="indices", funcs=ID_FUNCS, witnesses=["equal-positions"],
    params={"domain": "all usize indices; all (column,row,pad column,pad row) pairs of pairs"})
for BK in (0, 7):
    add(name="c08_gating_wire_%d" % BK, prop="C08", crate="det", expr="crate::c08::gating_wire::<%d>" % BK, unwind=10,
        unwindset=[("BoardId", 10)], cap_s=1200, mem_gb=8, est_s=600, family="gating", funcs=ID_FUNCS[2:], klass="best",
        sched="thorough", witnesses=["gating-reached"], params={"board": BK, "run": "all u32 < 2941", "channel": "all 32"})
for PK in (0, 70):
    add(name="c08_gating_pwb_%d" % PK, prop="C08", crate="det", expr="crate::c08::gating_pwb::<%d>" % PK, unwind=10,
        unwindset=[("BoardId", 73)], cap_s=1200, mem_gb=8, est_s=600, family="gating", funcs=ID_FUNCS[2:], klass="best",
        sched="thorough", witnesses=["gating-reached"], params={"board": PK, "run": "all u32 < 4418"})
for N in (0, 67, 68, 69, 70):
    add(name="c01_pwb_baseline_%d" % N, prop="C01", crate="det", expr="crate::c08::pwb_baseline::<%d>" % N, unwind=N + 3,
        cap_s=1500, mem_gb=5, est_s=60, family="pwb_baseline", funcs=["padwing::suppression_baseline"], witnesses=["reached"],
        sched="always" if N in (67, 68) else "pool", params={"samples": N, "content": "all i16"})


# ------------------------------------------------------------------ C07 ----
FIFO_FUNCS = ["alpha_g_detector::chronobox::chronobox_fifo", "chronobox::fifo_entry / timestamp_counter / wrap_around_marker (via hook)",
              "chronobox::scalers_block (via hook)", "winnow 0.6.1 combinators (alt, repeat, separated_foldl1, seq, le_u24, le_u32, take, literal)"]
def fifo_loops(words, blocks=1):
    return [("to_le_uint", 5), ("repeat0_", words + 2), ("separated_foldl1", blocks + 3), ("memcmp", 6), ("stream::Compare", 6),
            ("leading_entries", words + 2), ("check_prefix", words + 2), ("fifo_block", 262), ("put_entry", 4)]
add(name="c07_fifo_word", prop="C07", also=["C01"], crate="det", expr="crate::c07::fifo_word", unwind=6, unwindset=fifo_loops(1),
    cap_s=900, mem_gb=4, est_s=20, family="fifo_word", funcs=FIFO_FUNCS[1:2] + FIFO_FUNCS[3:],
    witnesses=["timestamp", "marker", "neither"], params={"word": "all 2^32"})
for L in (0, 1, 2, 3):
    add(name="c07_fifo_word_short_%d" % L, prop="C07", also=["C01"], crate="det", expr="crate::c07::fifo_word_short::<%d>" % L,
        unwind=6, unwindset=fifo_loops(1), cap_s=900, mem_gb=4, est_s=15, family="fifo_word", funcs=FIFO_FUNCS[1:2],
        witnesses=["rejected"], sched="always" if L == 3 else "pool", params={"bytes": L})
for L in (0, 3, 4, 8, 240, 243, 244, 245, 248):
    add(name="c07_scalers_%d" % L, prop="C07", also=["C01"], crate="det", expr="crate::c07::scalers::<%d>" % L, unwind=8,
        unwindset=fifo_loops(1), cap_s=900, mem_gb=5, est_s=30, family="scalers", funcs=FIFO_FUNCS[2:],
        witnesses=["consumed-or-short", "rejected"], sched="always" if L in (243, 244, 248) else "pool", params={"bytes": L})
for L in range(0, 17):
    w = L // 4
    add(name="c07_fifo_prefix_%d" % L, prop="C07", also=["C01"], crate="det", expr="crate::c07::fifo_prefix::<%d>" % L,
        unwind=4, unwindset=fifo_loops(w), cap_s=4000, mem_gb=8 if L < 8 else 16, cap_gb=48,
        est_s=30 if L < 4 else (120 if L < 8 else 700), family="fifo_prefix", funcs=FIFO_FUNCS,
        witnesses=["all-words-are-entries", "no-entry"],
        sched="always" if L in (0, 3, 4) else "thorough", klass="core" if L <= 5 else "best",
        params={"bytes": L, "content": "all"})
for (L, cuts) in ((4, (0, 1, 2, 3, 4)), (8, (0, 1, 3, 4, 5, 7, 8)), (12, (4, 6, 8))):
    for C in cuts:
        add(name="c07_fifo_split_%d_c%d" % (L, C), prop="C07", crate="det", expr="crate::c07::fifo_split::<%d, %d>" % (L, C),
            unwind=4, unwindset=fifo_loops(L // 4), cap_s=5400, mem_gb=10 if L <= 8 else 16, est_s=200 if L == 4 else 1500,
            family="fifo_split", funcs=FIFO_FUNCS, witnesses=["some-entry"],
            sched="thorough", klass="best", cap_gb=48,
            params={"bytes": L, "cut": C, "content": "all"})
for (A, B) in ((0, 0), (1, 0), (0, 1), (1, 1), (1, 2)):
    full = 4 * A + 244 + 4 * B
    for L in sorted({full, full - 1, full - 4, 4 * A + 2, 4 * A + 4, 4 * A + 120, 4 * A + 243}):
        if L < 0 or L > full:
            continue
        add(name="c07_fifo_block_a%d_b%d_l%d" % (A, B, L), prop="C07", also=["C01"], crate="det",
            expr="crate::c07::fifo_block::<%d, %d, %d>" % (L, A, B), unwind=4, unwindset=fifo_loops(A + B + 1, 1),
            cap_s=3600, mem_gb=10, est_s=600, family="fifo_block", funcs=FIFO_FUNCS, witnesses=["reached"],
            sched="thorough", klass="best",
            params={"entries_before": A, "entries_after": B, "bytes": L, "of": full, "content": "block counters and entry payload bits symbolic"})
META["C07"] = {
    "pool_k": 2,
    "budget_s": {"thorough": 5 * 3600},
    "bounds": "one entry parser: all 2^32 words and all shorter inputs; scaler block parser: 0..=248 bytes; chronobox_fifo on every "
              "content of 0..=8 bytes (thorough: up to 16, best effort); split invariance for every cut of 4-byte streams (thorough: "
              "8/12-byte streams, best effort); streams with one scaler block and <=1 entry on each side, complete and truncated "
              "(thorough, best effort). Loops: per-loop bounds from the input length (to_le_uint 5, repeat words+2, separated 4).",
    "outside": "streams longer than 16 bytes without a block / more than one scaler block / more than one entry next to a block; "
               "many-piece splitting follows from two-piece splitting by induction on the pieces (argument, not a solver result)",
    "assumptions": ["winnow 0.6.1 without the boxed dyn-Error cause in ContextError under cfg(kani) (the cause is never observable "
                    "through chronobox_fifo); native replay uses the unpatched behaviour"],
}


# ------------------------------------------------------------------ C08 (physics part) ----
add(name="c08_warm", prop="C08W", crate="phys", expr="crate::c08p::c08_warm", unwind=2, cap_s=600, mem_gb=2, sched="thorough")
add(name="c08_wire_pad_column", prop="C08", crate="phys", expr="crate::c08p::wire_pad_column", unwind=4, cap_s=1200, mem_gb=5,
    est_s=60, family="wire_pad_column", witnesses=["last-column"],
    funcs=["alpha_g_physics::matching::wire_to_pad_column", "matching::pad_column_to_wires", "TpcWirePosition::phi", "TpcPadColumn::phi"],
    params={"wire": "all 256", "rotation": "all 32", "column": "all 32"})


# ------------------------------------------------------------------ C18 ----
DRIFT_FUNCS = ["alpha_g_physics::drift::DriftTables::at", "drift::DriftTable::at", "uom f64 quantity arithmetic (Time/Length/Angle)",
               "verif_drift::VerifDriftTables::{new, at} (hook)"]
DRIFT_LOOPS = [("VerifDriftTables", 96), ("position", 542), ("DriftTable", 542), ("Quantity", 542), ("slice_selection", 96)]
def _drift_lengths():
    import json, os
    p = "/repo/physics/data/simulation/drift_table/drift_1T_70Ar_30CO2.json"
    try:
        return [len(t[0]) for t in json.load(open(p))]
    except Exception:
        return [537] * 92
DRIFT_LEN = _drift_lengths()
MODES = {0: "full", 1: "first8", 2: "last8", 3: "mid48"}
def drift(K, M, sched, klass="core", fams=("range_and_bounds", "knots", "symmetry", "monotone_continuous")):
    n = {0: DRIFT_LEN[K], 1: 8, 2: 8, 3: 48}[M]
    heavy = n > 100
    for fam in fams:
        two = fam in ("symmetry", "monotone_continuous")
        wit = {"range_and_bounds": ["inside", "beyond-last-knot", "before-first-knot"], "knots": ["first-knot", "last-knot"],
               "symmetry": ["inside"], "monotone_continuous": ["two-inside"]}[fam]
        est = (2400 if heavy else (200 if n > 8 else 60)) * (2 if two else 1)
        add(name="c18_%s_t%d_%s" % (fam, K, MODES[M]), prop="C18", crate="phys", expr="crate::c18::%s::<%d, %d>" % (fam, K, M),
            unwind=4, unwindset=[(p, n + 5) for p, _ in DRIFT_LOOPS], cap_s=(3 * est + 300) if heavy else 800, mem_gb=12 if heavy else 4, est_s=est,
            family=fam, funcs=DRIFT_FUNCS, witnesses=wit, klass=("best" if (heavy or two) else klass),
            sched=("thorough" if two else sched),
            params={"table": K, "knots": MODES[M], "of": DRIFT_LEN[K], "t": "[-1e-6, 5e-6] s", "z": "within the slice"})
for K in range(92):
    q = "always" if K in (0, 91) else "pool"
    fams = ("range_and_bounds", "knots", "symmetry", "monotone_continuous") if K in (0, 45, 91) else ("range_and_bounds", "knots")
    drift(K, 1, q, fams=fams)
    drift(K, 2, q, fams=fams)
for K in (0, 6, 45, 91):
    drift(K, 3, "thorough", fams=("range_and_bounds", "knots"))
for K in (0, 91, 6):
    drift(K, 0, "thorough", klass="best", fams=("range_and_bounds", "knots"))
for J in range(12):
    add(name="c18_slice_selection_%d" % J, prop="C18", crate="phys", expr="crate::c18::slice_selection::<%d>" % J, unwind=12,
        cap_s=1500, mem_gb=5, est_s=120, family="slice_selection", funcs=DRIFT_FUNCS[:1] + DRIFT_FUNCS[3:], witnesses=["inside", "outside"],
        sched="always" if J in (0, 11) else "pool",
        params={"z": "[-1.3, 1.3] m", "bounds": "real z bounds %d..%d" % (8 * J, min(8 * J + 8, 92))})
META["C18"] = {
    "pool_k": 2,
    "budget_s": {"thorough": 5 * 3600},
    "bounds": "per real table K (tables as alpha_g_physics loads them, dumped bit-exactly at every run): windows of consecutive real "
              "knots - first 8, last 8 (all 92 tables in thorough; tables 0 and 91 plus 2 seeded in quick), the 48 middle knots "
              "(tables 0, 6, 45, 91) and the complete tables 0, 6, 91 (best effort) - t in [-1e-6, 5e-6] s, z anywhere in the slice: "
              "range iff / error kind, radius and correction bounds, knot reproduction to 1e-12; slice selection and its z symmetry "
              "over the 92 real z bounds in 12 windows of 8; two-lookup clauses (monotone, 8 ns continuity, per-table symmetry) are "
              "best effort. Loops: knots+5 for the search, 12 for slice loops.",
    "outside": "t outside [-1e-6, 5e-6] s (NaN in particular); knots of tables that are not in a scheduled window; the two-lookup "
               "clauses wherever the solver does not finish (reported per run)",
    "assumptions": ["tables have ascending time, descending radius, ascending correction (checked natively on the dumped data)",
                    "hook VerifDriftTables::from_static builds DriftTables over read-only statics; inside a window the real lookup "
                    "brackets t with the same knots as in the full table"],
}

# ------------------------------------------------------------------ C20 ----
CBTS_FUNCS = ["alpha-g-chronobox-timestamps::chronobox_time (private fn, text extracted from main.rs at every run)",
              "alpha-g-chronobox-timestamps::main row loop (text extracted from main.rs)",
              "chronobox::TimestampCounter/WrapAroundMarker accessors; uom f64 / Frequency"]
add(name="c20_soundness", prop="C20", crate="phys", expr="crate::c20::soundness", unwind=4, cap_s=900, mem_gb=4, est_s=30,
    family="cbts_soundness", funcs=CBTS_FUNCS[:1] + CBTS_FUNCS[2:], witnesses=["some-time", "no-time-despite-two-markers"],
    params={"entry": "any 24-bit timestamp, channel, edge", "markers": "any presence, counters, top bits"})
add(name="c20_soundness_value", prop="C20", crate="phys", expr="crate::c20::soundness_value", unwind=4, cap_s=1800, mem_gb=4, est_s=900,
    family="cbts_soundness", funcs=CBTS_FUNCS[:1] + CBTS_FUNCS[2:], witnesses=[], sched="thorough", klass="best",
    params={"entry": "any 24-bit timestamp, channel, edge", "markers": "both present, any counters and top bits",
            "claim": "a reported time is bit-identical to (timestamp + ((counter+1)/2) * 2^24) / 10 MHz"})
add(name="c20_displacement", prop="C20", crate="phys", expr="crate::c20::displacement", unwind=4, cap_s=900, mem_gb=4, est_s=30,
    family="cbts_displacement", funcs=CBTS_FUNCS[:1], witnesses=["reached"],
    params={"edge": "true tick in [2^24, 16*2^23)", "faults": "late/early by one half wrap, dropped, duplicated, missing marker"})
add(name="c20_model_lemma", prop="C20", crate="phys", expr="crate::c20::model_lemma", unwind=4, cap_s=900, mem_gb=4, est_s=30,
    family="cbts_model", funcs=CBTS_FUNCS[2:], witnesses=["last-half-wrap"],
    params={"edge": "every tick of the first 8 wraps", "claim": "integer identity between the documented formula and the true tick"})
for C in range(0, 15):
    add(name="c20_model_fixed_%d" % C, prop="C20", crate="phys", expr="crate::c20::model_fixed::<%d>" % C, unwind=4, cap_s=2400,
        mem_gb=5, est_s=300, family="cbts_model", funcs=CBTS_FUNCS[:1] + CBTS_FUNCS[2:], witnesses=["edge-right-at-the-marker"],
        sched="thorough", klass="best",
        params={"marker_counter": C, "edge": "every tick of that half wrap, every channel"})
add(name="c20_model", prop="C20", crate="phys", expr="crate::c20::model", unwind=4, cap_s=2400, mem_gb=8, est_s=1500,
    family="cbts_model", funcs=CBTS_FUNCS[:1] + CBTS_FUNCS[2:], witnesses=["last-half-wrap"], sched="thorough", klass="best",
    params={"edge": "every tick of the first 8 wraps (symbolic marker counter)"})
for N in (2, 3, 4, 5):
    add(name="c20_row_loop_%d" % N, prop="C20", crate="phys", expr="crate::c20::row_loop::<%d>" % N, unwind=N + 3, cap_s=3600,
        mem_gb=8, est_s=300, family="cbts_rows", funcs=CBTS_FUNCS[1:], witnesses=["all-timestamps", "a-row"],
        sched="always" if N in (3, 4) else ("pool" if N == 2 else "thorough"), klass="core" if N <= 4 else "best",
        params={"fifo_entries": N, "content": "entry 0 = counter-0 marker, every other entry an arbitrary timestamp or marker"})
META["C20"] = {
    "pool_k": 2,
    "budget_s": {"thorough": 3600},
    "bounds": "chronobox_time: every 24-bit timestamp/channel/edge with every presence/counter/top-bit combination of the two markers "
              "(soundness); hardware model over the first 8 wraps (15 half wraps; one instance per half wrap, plus one with a symbolic "
              "counter in thorough); displacement by one half wrap, dropped/duplicated/missing marker. Row loop of main(): every FIFO of "
              "2..=3 entries after the counter-0 marker (4, 5 in thorough).",
    "outside": "FIFO parsing (C07), per-board buffering across banks/events/files, the skip to the counter-0 marker and the failure "
               "exits of main(), CSV serialisation, more than 5 FIFO entries, more than 8 wraps",
    "assumptions": ["the text of fn chronobox_time, struct Row and the row loop is cut verbatim from main.rs; in the loop "
                    "`wtr.serialize(row).context(..)?;` is replaced by `out.push(row);`",
                    "hook constructors TimestampCounter::verif_new / WrapAroundMarker::verif_new mask exactly like the parser (C07 decides the parser)"],
}


# ------------------------------------------------------------------ C04 ----
import itertools as _it
CHUNKS_FUNCS = ["alpha_g_detector::padwing::<PwbV2Packet as TryFrom<Vec<Chunk>>>::try_from", "<PwbPacket as TryFrom<Vec<Chunk>>>::try_from",
                "Chunk::{board_id, after_id, is_end_of_message, payload}", "<PwbV2Packet as TryFrom<&[u8]>>::try_from (on the concatenation)",
                "Chunk::verif_from_parts (hook)"]
# the concatenated payload reaches the slice decoder through the heap, where CBMC no longer sees the (zero) channel masks as
# constants: give the decoder's mask scans and channel loop the 1 iteration a zero mask needs - the unwinding assertions
# make the solver prove that this is enough
C04_LOOPS = [("BoardId", 73), ("c04::reassembly", 66), ("memcmp", 8), ("ChunksExact", 6), ("rfold", 2),
             ("TryFromRShE8try_from.", 2)]
def octal(seq):
    return sum(d << (3 * i) for i, d in enumerate(seq))
def b64(seq):
    return sum(d << (6 * i) for i, d in enumerate(seq))
LEN_BY_ID = {2: (28, 28), 3: (20, 20, 16), 4: (16, 16, 16, 8)}
def c04(n, ids, lens, sched, kind, klass="core", est=900, lite=False):
    name = "c04%s_n%d_ids%s_len%s" % ("lite" if lite else "", n, "".join(map(str, ids)), "_".join(map(str, lens)))
    if any(i.name == name for i in INSTS):
        return
    wit = {"valid": ["well-formed-set-decoded", "well-formed-set-bad-payload", "faulty-set"],
           "short": ["well-formed-set-bad-payload", "faulty-set"], "fault": ["faulty-set"]}[kind]
    add(name=name, prop="C04", also=["C01"], crate="det",
        expr="crate::c04::reassembly%s::<%d, %d, %d>" % ("_lite" if lite else "", n, octal(ids), b64(lens)),
        unwind=12, unwindset=C04_LOOPS, cap_s=4000 if not lite else 2400, mem_gb=14, est_s=est, family="reassembly_" + kind.replace("short", "valid"),
        funcs=CHUNKS_FUNCS, witnesses=wit, sched=sched, klass=klass,
        params={"chunks": n, "arrival_order_of_ids": list(ids), "payload_lengths": list(lens),
                "symbolic": "board (2 real boards), chip, end-of-message flag, counters, payload bytes"})
# single-chunk lists (no sorting work): end-of-message and missing-id rules, cheap enough for the quick tier
c04(1, (0,), (56,), "always", "valid", est=200, lite=True)
c04(1, (1,), (56,), "always", "fault", est=200, lite=True)
c04(1, (0,), (56,), "thorough", "valid", est=400, klass="best")
for n in (2, 3, 4):
    base = LEN_BY_ID[n]
    for perm in _it.permutations(range(n)):
        lens = tuple(base[i] for i in perm)
        c04(n, perm, lens, "thorough", "valid", est=900 if n < 4 else 1500, klass="best")
        if n == 2:
            c04(n, perm, lens, "always" if perm == (1, 0) else "pool", "valid", est=700, lite=True, klass="best")
# duplicated / missing ids (every arrival order of each faulty multiset, n = 2, 3)
for ids in ((0, 0), (1, 1), (0, 2), (1, 2), (0, 7)):
    for perm in sorted(set(_it.permutations(ids))):
        c04(2, perm, (28, 28), "thorough", "fault", klass="best")
        c04(2, perm, (28, 28), "always" if perm == (0, 0) else "pool", "fault", est=700, lite=True, klass="best")
for ids in ((0, 1, 1), (0, 0, 2), (0, 1, 3), (1, 2, 3), (0, 2, 2), (0, 0, 0)):
    for perm in sorted(set(_it.permutations(ids))):
        c04(3, perm, (20, 20, 16), "thorough", "fault", klass="best")
# a non-final chunk of another size (n = 3), including sizes that differ by less than a 32-bit word
for by_id in ((20, 16, 16), (16, 20, 16), (20, 17, 16), (18, 20, 16), (20, 19, 17)):
    for perm in _it.permutations(range(3)):
        c04(3, perm, tuple(by_id[i] for i in perm), "thorough", "fault", klass="best")
        if by_id == (20, 17, 16):
            c04(3, perm, tuple(by_id[i] for i in perm), "thorough", "fault", est=900, lite=True, klass="best")
# the final chunk may have any size (well-formed set; total != 56 so the slice decoder rejects the payload)
for lens_by_id in ((28, 24), (24, 28), (3, 28), (28, 1)):
    for perm in _it.permutations(range(2)):
        c04(2, perm, tuple(lens_by_id[i] for i in perm), "thorough", "short", klass="best")
add(name="c04_empty", prop="C04", also=["C01"], crate="det", expr="crate::c04::reassembly_empty", unwind=6, cap_s=600, mem_gb=4,
    est_s=20, family="reassembly_fault", funcs=CHUNKS_FUNCS[:1], witnesses=["rejected"], params={"chunks": 0})
for (n, ids, lens) in ((1, (0,), (28,)), (2, (1, 0), (28, 28)), (3, (2, 0, 1), (4, 7, 9)), (2, (0, 0), (0, 1))):
    add(name="c01_chunks_total_n%d_%s_%s" % (n, "".join(map(str, ids)), "_".join(map(str, lens))), prop="C01", crate="det",
        expr="crate::c04::reassembly_total::<%d, %d, %d>" % (n, octal(ids), b64(lens)), unwind=12,
        unwindset=[("BoardId", 73), ("c04::reassembly_total", 40), ("memcmp", 8)], cap_s=3600, mem_gb=12, est_s=900,
        family="chunks", funcs=CHUNKS_FUNCS[:2], witnesses=["rejected"], sched="pool" if n == 1 else "thorough", klass="best",
        params={"chunks": n, "ids": list(ids), "payload_lengths": list(lens), "payload": "fully symbolic"})
META["C04"] = {
    "pool_k": 0,
    "quick_cap_s": 780,
    "budget_s": {"thorough": 6 * 3600},
    "bounds": "QUICK: three `lite` instances (arrival order (1,0) of a well-formed pair; duplicate (0,0); three chunks with a non-final "
              "chunk 3 bytes short) in which a well-formed set must give Ok or BadPayload and a faulty set the documented chunk-level "
              "error - the comparison with the direct decoding is thorough-tier only. THOROUGH: sets of 2, 3 and 4 chunks whose payloads are the pieces of a 56-byte zero-channel packet (28+28, 20+20+16, "
              "16+16+16+8 bytes): EVERY arrival order of every well-formed set (2!, 3!, 4! instances) and of the faulty multisets "
              "(duplicated id, missing id, non-final chunk of another size incl. sizes differing by 1..3 bytes), each with board (2 real boards), chip, "
              "end-of-message flag, sequence counters and all payload bytes except the two channel masks symbolic; the empty list. "
              "Chunk ids and payload lengths are concrete per instance. Loops: default 12, board-table loops 73.",
    "outside": "more than 4 chunks, payload shapes other than the ones listed (in particular the 65535-byte maximum and packets with "
               "sent channels), chunk ids above 7, more than two distinct boards in one list",
    "assumptions": ["Chunk::verif_from_parts builds what Chunk::try_from would accept (C03 decides the wire format)",
                    "the reference is the documented predicate on the set plus the real slice decoder on the payloads concatenated in id order"],
}



META["C01"] = {
    "pool_k": 5,
    "budget_s": {"thorough": 4 * 3600},
    "bounds": "totality (Kani's panic / unwrap / index / arithmetic-overflow / unwinding checks, dev-profile MIR, overflow checks in "
              "every profile) of: AdcV3Packet/AdcPacket::try_from for every content of lengths 0..=40 and 160..=171; TrgV3Packet/"
              "TrgPacket::try_from lengths 0..=96; Chunk::try_from lengths 0..=40 (declared length symbolic) plus window edges; "
              "PwbV2Packet/PwbPacket::try_from lengths 0..=55 and 14 mask/requested_samples shapes up to 66 bytes; "
              "TryFrom<Vec<Chunk>> on the C04 lists; chronobox_fifo on the C07 streams; every *BankName and BoardId::try_from(&str) "
              "for all ASCII strings of 0..=6 bytes and all UTF-8 strings of <= 4 bytes; all integer/MAC/char id conversions over "
              "their full domains; padwing::suppression_baseline on 0/67/68/69/70 samples.",
    "outside": "longer slices (up to 65 KiB in the statement): all further length dependence is a comparison of len/2 with 12- and "
               "16-bit fields - an argument, not a solver result; PWB packets with more than 2 sent channels; release-profile MIR "
               "(reached only through native replays)",
    "assumptions": ["same trusted base as C02-C08; no functional oracle, only the absence of panics/overflow/OOB/non-termination within the bounds"],
}
META["C08"] = {
    "pool_k": 4,
    "budget_s": {"thorough": 3 * 3600},
    "bounds": "all ASCII strings of 0..=6 bytes and all valid UTF-8 strings of 1..=4 bytes through each of the ten bank-name "
              "parsers (accept <=> documented pattern; board/channel decoded = the name's characters; for MainEventBankName the "
              "decoded (kind, board, channel) determines the name, hence distinct names denote distinct channels); board names; every "
              "u8/u16/char/MAC/device-id/usize conversion over its full domain against frozen copies of the documented tables; "
              "TpcPadPosition::new injective; wire->pad-column arithmetic for all 256 wires incl. rotation law and geometry (half a "
              "pad pitch); run gating (best effort).",
    "outside": "the run-number dependent HashMap tables themselves: (board, channel) -> wire and (board, chip, channel) -> pad "
               "bijections, 'simulation maps like run 5000', the 10418 switch - one lookup in a lazy_static HashMap is beyond the "
               "bit-blasting back end (SipHash over a symbolic seed); the repository's unit tests enumerate these tables",
    "assumptions": ["8 Alpha16 and 71 PadWing board rows frozen in harness/det/src/oracle.rs at design time"],
}


# ------------------------------------------------------------------ C19 (row kernel only) ----
CSV_FUNCS = ["alpha-g-vertices::main: `rows.into_iter().scan((None, 0), |..| ..)` closure (text extracted from main.rs at every run)",
             "alpha-g-trg-scalers::main: the same closure of that binary", "TrgPacket::try_from / accessors (scalers rows)"]
for N in (1, 2, 3, 4, 5):
    add(name="c19_vertices_rows_%d" % N, prop="C19", crate="phys", expr="crate::c19::vertices_rows::<%d>" % N, unwind=N + 3, cap_s=1800,
        mem_gb=6, est_s=120, family="csv_rows", funcs=CSV_FUNCS[:1],
        witnesses=["two-decodable-events", "undecodable-event-first"] if N >= 3 else [],
        sched="always" if N in (1, 3) else ("pool" if N == 2 else "thorough"), klass="core" if N <= 3 else "best",
        params={"events": N, "per_event": "serial number, decodable or not, 32-bit timestamp, vertex present or not: all symbolic"})
for N in (1, 2, 3):
    add(name="c19_scalers_rows_%d" % N, prop="C19", crate="phys", expr="crate::c19::scalers_rows::<%d>" % N, unwind=max(N + 3, 6), cap_s=2400,
        mem_gb=8, est_s=300, family="csv_rows", funcs=CSV_FUNCS[1:], witnesses=["two-decodable-events"] if N >= 2 else [],
        sched="always" if N == 2 else "thorough", klass="core" if N <= 2 else "best",
        params={"events": N, "per_event": "serial number, decodable or not, the 80 packet bytes: all symbolic"})
META["C19"] = {
    "pool_k": 1,
    "bounds": "the row-producing `scan` closure of alpha-g-vertices (1..=3 events, thorough 5) and alpha-g-trg-scalers (2 events, thorough 3): "
              "every combination of serial numbers, decodable/undecodable events, 32-bit timestamps (wrap-arounds included), vertex "
              "present/absent resp. every accepted 80-byte TRG packet: one row per event in order with its serial number; an undecodable "
              "event has empty fields; the time of a decodable event minus the time of the first decodable one is the sum of the 32-bit "
              "wrapped differences between consecutive decodable events (in ticks); vertex / counter columns are the library's values.",
    "outside": "everything else in the statement: ordering of files by initial timestamp, refusal of mixed runs / duplicate timestamps / "
               "unknown extensions, event filtering, byte-identical output for every rayon thread count, CSV serialisation, and the "
               "final int->float conversion and division by 62.5 MHz (the time column is compared as a tick count); more than 5 events",
    "assumptions": ["the text of struct Row and of the scan statement is cut verbatim from main.rs; one mechanical edit: "
                    "`(*cumulative as f64 / TRG_CLOCK_FREQ).get::<second>()` -> `f64::from_bits(*cumulative)`; rows are collected in a fixed array"],
}



# ------------------------------------------------------------------ C08: run-number gates over the HashMap tables ----
RS_STUB = ("std::hash::RandomState::new", "crate::c08::fixed_random_state")
for (name, p4418, p10418, sched) in ((44, 4 * 8 + 0, 6 * 8 + 2, "thorough"), (46, 2 * 8 + 0, -1, "thorough"), (90, -1, 2 * 8 + 0, "thorough"), (12, 0, 0, "thorough")):
    add(name="c08_run_gate_pwb_%d" % name, prop="C08", crate="det", expr="crate::c08::run_gate_pwb::<%d, %d, %d>" % (name, p4418, p10418),
        unwind=10, unwindset=[("BoardId", 73), ("run_gate_pwb", 10), ("memcmp", 8)], cap_s=900, mem_gb=8, est_s=300, family="run_gate",
        funcs=["padwing::map::TpcPwbPosition::try_new (match on run_number + lazy_static HashMap lookup, hasher seed fixed by a stub)"],
        witnesses=["last-run-of-the-first-map", "simulation-run"], sched=sched, klass="best", stub=RS_STUB,
        params={"board": name, "run": "all 2^32", "expected": "error < 4418; map 4418 for [4418, 10418) and u32::MAX; map 10418 from 10418"})
for (bk, ch, wire, sched) in ((0, 0, 4, "thorough"), (6, 31, 255, "thorough")):
    add(name="c08_run_gate_wire_%d_%d" % (bk, ch), prop="C08", crate="det", expr="crate::c08::run_gate_wire::<%d, %d, %d>" % (bk, ch, wire),
        unwind=10, unwindset=[("BoardId", 10), ("memcmp", 8)], cap_s=900, mem_gb=8, est_s=300, family="run_gate",
        funcs=["alpha16::aw_map::TpcWirePosition::try_new (match on run_number + lazy_static HashMap lookup, hasher seed fixed by a stub)"],
        witnesses=["first-run-with-a-map"], sched=sched, klass="best", stub=RS_STUB,
        params={"board_row": bk, "channel": ch, "run": "all 2^32", "expected_wire": wire})

# C01: the non-ASCII screening of the name parsers (string slicing on a char boundary) in the quick tier
for pn, P in (("adc16", 0), ("adc32", 1), ("padwing", 3)):
    add(name="c01_name_utf8_%s_4" % pn, prop="C01", crate="det", expr="crate::c08::name_utf8::<4, %d>" % P, unwind=10, unwindset=NAME_LOOPS,
        cap_s=1200, mem_gb=6, est_s=150, family="name_utf8", funcs=NAME_FUNCS[:1], witnesses=["non-ascii-string-parsed"],
        sched="always" if pn == "adc16" else "pool", params={"parser": pn, "bytes": 4, "alphabet": "all valid UTF-8"})
