"""Instance tables: which harness instances exist, their bounds and costs.

Everything a run claims is derived from these tables; they are the stated
bounds. `META[prop]` carries the prose that goes into the evidence file.
"""
from vlib import Inst

INSTS: list[Inst] = []
META: dict[str, dict] = {}


def add(**kw):
    INSTS.append(Inst(**kw))


# ------------------------------------------------------------------ C06 ----
TRG_FUNCS = ["alpha_g_detector::trigger::<TrgV3Packet as TryFrom<&[u8]>>::try_from",
             "alpha_g_detector::trigger::<TrgPacket as TryFrom<&[u8]>>::try_from",
             "TrgV3Packet/TrgPacket accessors (18 each)"]
add(name="c06_trg_iff_80", prop="C06", crate="det", expr="crate::c06::trg_iff::<80>", unwind=82,
    cap_s=600, mem_gb=6, witnesses=["accepted", "rejected-80"], est_s=40, family="trg_iff",
    funcs=TRG_FUNCS, params={"len": 80, "content": "all 2^640"})
for L in (0, 1, 4, 76, 79, 81, 84, 96):
    add(name="c06_trg_iff_%d" % L, prop="C06", crate="det", expr="crate::c06::trg_iff::<%d>" % L, unwind=82,
        cap_s=300, mem_gb=4, witnesses=["rejected-other-length"], est_s=10, family="trg_iff",
        funcs=TRG_FUNCS, params={"len": L, "content": "all"})
META["C06"] = {
    "bounds": "slice lengths {0,1,4,76,79,80,81,84,96}; every content of each length (length 80: all 2^640 packets); "
              "loops: default unwind 82 (re-encoding compare 80, memcmp 4)",
    "outside": "slice lengths other than the nine listed (the decoder's only length test is len != 80)",
    "assumptions": ["Kani 0.68 MIR->goto translation and CBMC 6.11 are sound", "dev-profile MIR of /repo's working tree",
                    "reference predicate c06::spec written from the property statement"],
}
