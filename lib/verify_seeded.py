#!/usr/bin/env python3
"""Confirm a seeded change delivered by a sub-agent, in its scratch worktree, and file it under /verif/seeded/<id>/.

usage: verify_seeded.py <PROP> <k> <pkg: detector|physics|workspace> [--demo-pkg detector|physics] [--features f]
Checks, in /tmp/mut_<PROP> moved to /repo's current HEAD:
  (1) patch applies, workspace test suite of the touched package(s) passes with it,
  (2) the demonstration fails with the patch and (3) passes without it.
"""
import json, os, shutil, subprocess, sys, time

def sh(cmd, cwd, timeout=3000):
    r = subprocess.run(cmd, cwd=cwd, shell=True, capture_output=True, text=True, timeout=timeout,
                       env=dict(os.environ, CARGO_NET_OFFLINE="true", CARGO_TERM_COLOR="never"))
    return r.returncode, (r.stdout + r.stderr)

def main():
    prop, k, pkg = sys.argv[1], sys.argv[2], sys.argv[3]
    demo_pkg = "detector"
    feats = ""
    a = sys.argv[4:]
    while a:
        if a[0] == "--demo-pkg": demo_pkg = a[1]; a = a[2:]
        elif a[0] == "--features": feats = " --features " + a[1]; a = a[2:]
        else: a = a[1:]
    wt = "/tmp/mut_%s" % prop
    out = "/tmp/mut_%s_out" % prop
    sid = "%s-m%s" % (prop, k)
    dst = "/verif/seeded/%s" % sid
    head = subprocess.run(["git", "-C", "/repo", "rev-parse", "HEAD"], capture_output=True, text=True).stdout.strip()
    sh("git checkout -q -- . && git clean -qfd detector/tests physics/tests analysis/tests; git checkout -q --detach %s" % head, wt)
    patch = os.path.join(out, "patch%s.diff" % k)
    demo = os.path.join(out, "demo%s.rs" % k)
    log = {"id": sid, "property": prop, "repo_head": head, "ran": []}
    rc, o = sh("git apply --check %s && git apply %s" % (patch, patch), wt)
    log["ran"].append({"cmd": "git apply patch%s.diff" % k, "rc": rc})
    if rc != 0:
        log["verdict"] = "patch does not apply to current HEAD: " + o[-300:]
        print(json.dumps(log, indent=1)); return 1
    suite = {"detector": "cargo test -p alpha_g_detector --offline -j 6", "physics": "cargo test -p alpha_g_physics --offline -j 6",
             "workspace": "cargo test --workspace --offline -j 6"}[pkg]
    rc, o = sh(suite + " 2>&1 | grep -E '^test result|^error' ", wt)
    ok_suite = ("FAILED" not in o) and ("error" not in o) and ("test result: ok" in o)
    log["ran"].append({"cmd": suite + " (patch applied)", "passes": ok_suite, "summary": o.strip().splitlines()[:6]})
    tdir = os.path.join(wt, demo_pkg, "tests")
    os.makedirs(tdir, exist_ok=True)
    shutil.copy(demo, os.path.join(tdir, "demo%s.rs" % k))
    pk = {"detector": "alpha_g_detector", "physics": "alpha_g_physics"}[demo_pkg]
    dcmd = "cargo test -p %s --offline -j 6%s --test demo%s" % (pk, feats, k)
    rc1, o1 = sh(dcmd + " 2>&1 | tail -30", wt)
    fails_with = ("test result: FAILED" in o1) or ("panicked" in o1 and "test result: ok" not in o1)
    log["ran"].append({"cmd": dcmd + " (patch applied)", "fails": fails_with, "tail": o1.strip().splitlines()[-4:]})
    sh("git checkout -q -- .", wt)
    rc2, o2 = sh(dcmd + " 2>&1 | tail -30", wt)
    passes_without = "test result: ok" in o2 and "FAILED" not in o2
    log["ran"].append({"cmd": dcmd + " (patch reverted)", "passes": passes_without, "tail": o2.strip().splitlines()[-3:]})
    shutil.rmtree(tdir, ignore_errors=True)
    sh("git checkout -q -- . && git clean -qfd detector/tests physics/tests", wt)
    confirmed = ok_suite and fails_with and passes_without
    log["confirmed"] = confirmed
    if confirmed:
        os.makedirs(dst, exist_ok=True)
        shutil.copy(patch, os.path.join(dst, "patch.diff"))
        shutil.copy(demo, os.path.join(dst, "demo.rs"))
        readme = os.path.join(out, "README.md")
        meta = {"id": sid, "breaks_property": prop, "source": "independent sub-agent given only the property text and a scratch worktree",
                "confirmed_on_repo_head": head, "what_i_ran": log["ran"],
                "demo_location": "%s/tests/demo%s.rs" % (demo_pkg, k), "needs_to_manifest": "see description", "description": ""}
        json.dump(meta, open(os.path.join(dst, "meta.json"), "w"), indent=1)
    print(json.dumps(log, indent=1))
    return 0 if confirmed else 1

if __name__ == "__main__":
    sys.exit(main())
