#!/bin/bash
# usage: run_seeded_one.sh <seeded id> <property> <instance regex>   (thorough tier, selected instances, against one seeded change)
set -u
cd /verif
[ -z "$(git -C /repo status --porcelain)" ] || { echo "/repo not clean"; exit 3; }
git -C /repo apply /verif/seeded/$1/patch.diff || exit 3
VERIF_STOP_ON_VIOLATION=1 python3 -u ./check $2 --tier thorough --only "$3" > .work/seeded_one_$1.log 2>&1
rc=$?
git -C /repo checkout -- .
echo "$1 exit $rc"; grep -E "^VIOLATION|^  instance|tier=thorough" .work/seeded_one_$1.log | head -4
