#!/bin/bash
# Set-up after a fresh restore (offline): build the native side of the harness
# crates, validate the stand-ins used under Kani against the real code, and warm
# the per-worker Kani target directories so that checks only recompile /repo.
set -u
cd /verif
export CARGO_NET_OFFLINE=true
mkdir -p .work evidence
python3 - <<'PY'
import sys
sys.path.insert(0, "/verif/lib")
import vlib, instances
vlib.generate_instances(instances.INSTS)
import gen_drift, gen_extract
for c in ("phys", "dump"):
    import shutil, os
    d = "/verif/harness/%s/Cargo.lock" % c
    if not os.path.exists(d):
        shutil.copy("/repo/Cargo.lock", d)
gen_drift.main()
gen_extract.main()
for c in vlib.CRATES:
    import os
    if os.path.isdir(vlib.CRATES[c]):
        vlib.refresh_lock(c)
PY
rc=0
for c in det phys; do
  [ -d harness/$c ] || continue
  echo "== native self-tests of harness/$c (oracles vs the repository's own test vectors, CRC model vs real crc32c)"
  (cd harness/$c && cargo test --offline --release --target-dir /verif/.work/$c/native 2>&1 | tail -15) || rc=1
  (cd harness/$c && cargo build --offline --bin replay --target-dir /verif/.work/$c/native 2>&1 | tail -1
   cargo build --offline --release --bin replay --target-dir /verif/.work/$c/native 2>&1 | tail -1)
done
warm() { # crate slots harness
  local c=$1 n=$2 h=$3
  for k in $(seq 0 $((n-1))); do
    ( cd harness/$c && cargo kani --lib --only-codegen --harness "inst::$h" --exact --target-dir /verif/.work/$c/t$k >/verif/.work/warm-$c-$k.log 2>&1 || echo "warm $c/t$k failed" ) &
    # do not start them all at once: the first one downloads nothing but does lock the package cache
    sleep 1
  done
  wait
}
[ -d harness/det ] && warm det ${VERIF_SLOTS_DET:-14} c06_trg_iff_0
[ -d harness/phys ] && warm phys ${VERIF_SLOTS_PHYS:-8} c08_warm
grep -l "failed\|error: could not compile" .work/warm-*.log 2>/dev/null && rc=1
exit $rc
